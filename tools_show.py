#!/usr/bin/env python3
import json,sys
for p in sys.argv[1:]:
    d=json.load(open(p))
    print("==",p)
    print("  cfg",{k:v for k,v in d['cfg'].items() if k not in('clock_ms','files')}, "files" ,list(d['cfg'].get('files',{}).keys()))
    for e in d['events']:
        if 'hex' in e and e['hex']:
            b=bytes.fromhex(e['hex'])
            e=dict(e); e['bytes']=repr(b[:300]); del e['hex']
        print("  ",e)
    v=d.get('violation')
    if v: print("  =>",v['class'],'|',v['detail'])
