#!/usr/bin/env python3
"""Runs the repository's test suite with the guard OFF and compares with the pinned baseline."""
import json, subprocess, re, sys
base = json.load(open('/root/.vp/BASELINE.json'))
want = set(base['stable_pass'])
out = subprocess.run("cd /repo && cargo test --workspace --no-fail-fast --offline 2>&1", shell=True, capture_output=True, text=True).stdout
ok = set()
for m in re.finditer(r"^test (\S+) \.\.\. ok", out, re.M):
    ok.add("icy_engine::" + m.group(1))
missing = sorted(want - ok)
print(f"baseline {len(want)} stable tests; passing now {len(want & ok)}; missing {len(missing)}")
for m in missing: print("  MISSING", m)
sys.exit(1 if missing else 0)
