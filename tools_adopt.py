#!/usr/bin/env python3
"""Adopt the replay files of a property as pinned witnesses of known findings (a deliberate, manual step:
the checks never add to known_findings.json themselves). usage: tools_adopt.py <property> [class-substring ...]"""
import json, sys, glob, os, shutil, re
prop = sys.argv[1]; filters = sys.argv[2:]
kf = json.load(open('/verif/known_findings.json'))
have = {(f['property'], f['class']) for f in kf['findings']}
os.makedirs('/verif/findings', exist_ok=True)
for p in sorted(glob.glob(f'/verif/replays/{prop}-*.json')):
    d = json.load(open(p)); v = d['violation']
    if filters and not any(f in v['class'] for f in filters): continue
    if (prop, v['class']) in have: continue
    name = os.path.basename(p)
    shutil.copy(p, f'/verif/findings/{name}')
    what = re.sub(r'\s+', ' ', v['detail'])[:220]
    kf['findings'].append({'property': prop, 'class': v['class'], 'what': what, 'witness': f'findings/{name}'})
    print('adopted', v['class'])
json.dump(kf, open('/verif/known_findings.json', 'w'), indent=1)
