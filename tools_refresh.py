#!/usr/bin/env python3
"""Re-derive the class key of every pinned witness by replaying it (after a harness change that renames classes).
Findings whose witness no longer fails are listed, not removed."""
import json, subprocess, re
kf = json.load(open('/verif/known_findings.json'))
for f in kf['findings']:
    out = subprocess.run(['/verif/run.sh', 'replay', '/verif/' + f['witness']], capture_output=True, text=True).stdout
    m = re.search(r'replay of \S+: \S+ \[(.*?)\] at event', out)
    if not m:
        print('NO LONGER FAILS:', f['class'], f['witness']); continue
    if m.group(1) != f['class']:
        print('renamed', f['class'], '->', m.group(1)); f['class'] = m.group(1)
json.dump(kf, open('/verif/known_findings.json', 'w'), indent=1)
