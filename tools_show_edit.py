#!/usr/bin/env python3
import json,sys
for p in sys.argv[1:]:
    d=json.load(open(p))
    print("==",p.split('/')[-1])
    print("  doc",d['cfg'].get('doc'))
    for e in d['events']:
        if e['ev']=='op': print("   op",e['name'],e.get('args',[]), ('hex='+e['hex']) if e.get('hex') else '')
        else: print("  ",e['ev'])
    v=d.get('violation')
    if v: print("  =>",v['class'],'|',v['detail'][:300])
