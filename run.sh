#!/bin/bash
# Entry point for every registered command. Always rebuilds the harness against /repo's current
# working tree (cargo is incremental), then runs the simulator.
#   ./run.sh build
#   ./run.sh check <property> [quick|thorough]
#   ./run.sh replay <file>
#   ./run.sh selfcheck
set -u
if [ "${1:-}" = "replay" ] || [ "${1:-}" = "exec" ]; then set -- "$1" "$(readlink -f "${2:-/nonexistent}")"; fi
cd "$(dirname "$0")/sim" || exit 2
export CARGO_NET_OFFLINE=true
build() {
    local log
    log=$(cargo build --release --offline 2>&1)
    local rc=$?
    if [ $rc -ne 0 ]; then
        echo "$log" | grep -E "^(error|warning: unused)" -A12 | head -80 >&2
        echo "harness error: build failed" >&2
        exit 2
    fi
}
cmd="${1:-}"
case "$cmd" in
    build) build ;;
    check) build; shift; exec ./target/release/sim check "$@" ;;
    replay) build; shift; exec ./target/release/sim replay "$@" ;;
    selfcheck) build; shift; exec ./target/release/sim selfcheck "$@" ;;
    gen|exec) build; exec ./target/release/sim "$@" ;;
    *) echo "usage: run.sh build | check <property> [quick|thorough] | replay <file> | selfcheck" >&2; exit 2 ;;
esac
