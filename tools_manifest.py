#!/usr/bin/env python3
"""Writes /verif/MANIFEST.json. Edit CLAIMED / NA below; run after adding a check."""
import json, subprocess

def commits():
    out = subprocess.run(["git", "-C", "/repo", "log", "--format=%h %s"], capture_output=True, text=True).stdout
    return [l.split()[0] for l in out.splitlines() if l.split(" ", 1)[1].startswith("verif hooks:")]

CLAIMED = {
 "C08": dict(cat="exploration", ref="DESIGN.md §3 C08", text="wip", note="wip", tech="deterministic simulation"),
 "C20": dict(cat="exploration", ref="DESIGN.md §3 C20", text="wip", note="wip", tech="deterministic simulation"),
 "C02": dict(cat="fault_enumeration", ref="DESIGN.md §3 C02", text="wip", note="wip", tech="deterministic simulation"),
 "C03": dict(cat="exploration", ref="DESIGN.md §3 C03", text="wip", note="wip", tech="deterministic simulation"),
 "C16": dict(cat="exploration", ref="DESIGN.md §3 C16", text="wip", note="wip", tech="deterministic simulation"),
 "C10": dict(cat="exploration", ref="DESIGN.md §3 C10", text="wip", note="wip", tech="deterministic simulation"),
 "C09": dict(cat="exploration", ref="DESIGN.md §3 C09", text="wip", note="wip", tech="deterministic simulation"),
 "C01": dict(cat="exploration", ref="DESIGN.md §3 C01", text="wip", note="wip", tech="deterministic simulation"),
 "C14": dict(cat="exploration", ref="DESIGN.md §3 C14",
   text="Seeded search over decode-completion orders and poll placements with the engine's real decode threads parked at a gate and released one at a time; the canonical schedule space for k<=3 images (33 561 schedules, <=2 polls per gap) is swept completely by run index, larger k sampled. Oracles: rectangularity and declared-raster-size on every decode, arrival-order/shadowing reference model after every poll, no delivery of unfinished decodes, exactly-once, poll never blocks (5 s watchdog, confirmed by solo replay), bounded liveness after all releases. Sampling, not proof.",
   note="Trusts: the gate hook (cfg icy_engine_verif) parks a decode before it reads its payload; the reference image of an arrival is computed by calling the real Sixel::parse_from synchronously; font cell is 8x16 in these runs. 'Never blocks' is a 5 s wall-clock judgement on a microsecond call.",
   tech="deterministic simulation: gated real threads, seeded schedule search, reference-model oracle"),
}

NA = {
 "C04": "ANSI write->parse equality is a pure function of (buffer, options); no thread, clock, I/O, fault or interleaving to simulate. A property-based round-trip test is the right tool, not this technique.",
 "C05": "Save->load equality of XBin/BIN/ADF/IDF/Tundra is a pure function of the buffer; re-save stability a pure function of the file bytes. No seam.",
 "C06": "One pure compressor and one pure decoder; the property asks for exhaustive small-scope enumeration (bounded model checking), not simulation.",
 "C07": "IcyDraw save/load runs a PNG encoder/decoder over in-memory vectors; a function of the document. No seam.",
 "C11": "The only seam (wall clock in the SAUCE writer) does not influence anything the property observes; everything compared is a function of (metadata, content).",
 "C12": "ColorOptimizer::optimize and render_to_rgba are pure; nothing to schedule or fault.",
 "C13": "Buffer::get_char is a pure function of the layer stack; the laws are relational properties of one call.",
 "C15": "Writer/parser pairs for Avatar, PCBoard, Ctrl-A, Renegade, ASCII, ATASCII are pure functions of the buffer.",
 "C17": "Font encodings (PSF2, raw, DCS string, embedded blocks, TDF) are pure encode/decode pairs.",
 "C18": "Finite pure codecs; the property asks for complete enumeration of 256- and 65 536-element domains.",
 "C19": "CRC routines are pure; the property asks for table-entry-by-entry comparison with the defining recurrence.",
}

def main():
    props = [json.loads(l)["id"] for l in open("/verif/properties.jsonl")]
    checks = []
    for p in props:
        if p in CLAIMED:
            c = CLAIMED[p]
            checks.append({
                "property_id": p,
                "quick_cmd": f"./run.sh check {p} quick",
                "thorough_cmd": f"./run.sh check {p} thorough",
                "evidence_file": f"/verif/evidence/{p}.json",
                "replay_cmd_template": "./run.sh replay {path}",
                "engine": "sim",
                "level_claimed": {"category": c["cat"], "text": c["text"], "design_ref": c["ref"]},
                "level_note": c["note"],
                "technique": c["tech"],
            })
    na = [{"property_id": p, "reason": NA.get(p, "not yet decided by this machinery (in progress); see DESIGN.md")} for p in props if p not in CLAIMED]
    m = {
        "version": 1,
        "setup_cmd": "./run.sh build",
        "hooks": {
            "guard": "--cfg icy_engine_verif",
            "enable": "RUSTFLAGS='--cfg icy_engine_verif' via /verif/sim/.cargo/config.toml; the harness depends on /repo by path",
            "baseline_off_cmd": "cd /repo && cargo test --workspace --no-fail-fast --offline",
            "source_commits": commits(),
            "add_only": True,
        },
        "engines": [{"name": "sim", "path": "/verif/sim", "serves_properties": sorted(CLAIMED), "kind_free_text": "deterministic simulator: supervisor + worker processes, seeded trace generators, executors over the real engine, reference models, minimiser"}],
        "checks": checks,
        "not_applicable": na,
        "notes": "Exit codes: 0 held, 1 violation (VIOLATION line with replay file), 2 harness error. VERIF_SEED selects the seed (default 20261004); VERIF_SCALE scales run counts; VERIF_WORKERS the process count.",
    }
    json.dump(m, open("/verif/MANIFEST.json", "w"), indent=1)
    print("claimed", sorted(CLAIMED), "n/a", len(na))

main()
