#!/usr/bin/env python3
"""Writes /verif/MANIFEST.json. Edit CLAIMED / NA below; run after adding a check."""
import json, subprocess

def commits():
    out = subprocess.run(["git", "-C", "/repo", "log", "--format=%h %s"], capture_output=True, text=True).stdout
    return [l.split()[0] for l in out.splitlines() if l.split(" ", 1)[1].startswith("verif hooks:")]

CLAIMED = {
 "C01": dict(cat="exploration", ref="DESIGN.md §3 C01",
   text="Seeded terminal sessions for all ten text emulations (ANSI with DCS/OSC/APS/macro/music/sixel, Avatar, PCBoard, Ctrl-A, Renegade, PETSCII, ATASCII, Viewdata, Mode 7, ASCII) on screens 1..132 x 1..60: a host stub emits tokens from per-emulation tables, a simulated line injects 11 fault kinds (bit flip, drop, dup, noise burst, retransmit, reorder, carrier cut + redial, 7-bit strip, XON/XOFF, NUL padding, loopback of the terminal's own replies), decode threads are released and the UI polls at scheduler-chosen points. After every byte: the call returned Ok or Err, no panic (caught, keyed by enclosing engine function), the worker process is alive, and the next byte is accepted. Sampling; a clean batch is evidence, not proof.",
   note="Release-profile arithmetic. Step-fuel, depth and allocator budgets end runaway runs; such endings are C03 verdicts, not C01 ones. Worker aborts (SIGSEGV/SIGABRT) are attributed to the in-flight run and confirmed by solo replay.",
   tech="deterministic simulation: seeded workload + line-fault injection, per-byte crash oracle"),
 "C02": dict(cat="fault_enumeration", ref="DESIGN.md §3 C02",
   text="Base files are produced by the engine's own writers (18 extensions, PSF/raw fonts incl. tables of up to 2^17 glyphs, TDF bundles, 5 palette formats plus the writer-less ASE reader, clipboard payloads, UTF-8 text files with a byte order mark, captured terminal sessions saved under twelve extensions) from seeded documents; a simulated disk applies 18 stored-byte fault kinds (short, torn sector, lost sector, stale tail, bit rot, overwrite, misdirected and duplicated sector, misnamed file incl. odd and non-UTF-8 names, SAUCE-tail-only, COMNT cut, header extreme, decimal number extreme, SAUCE numeric field extreme, SAUCE text bytes, TheDraw font name bytes, well-formed multi-byte character inserted, far Tundra position record with or without a wide SAUCE record) singly and in combinations of 2-3, plus real-file-system legs (missing, directory, empty, no extension). Every entry point named by the property is called on the damaged bytes; oracle: returns Ok/Err/None, no panic, worker alive; the loader's drain loop runs on virtual sleeps with decode threads gated. Two sweeps are complete by run index: every prefix (truncation) of 2 (quick) / 6 (thorough) base files for each of the 23 reader kinds, and the whole single-fault space (every truncation, every position x {bit 0, bit 7, 0x00, 0xFF, 0x1A}, every aligned 16-byte run zeroed) of 2 / 64 base files of up to 5 200 bytes. IcyDraw files are additionally damaged inside their framing (zTXt records rewritten and re-framed with correct base64/zlib/CRC). Multi-fault combinations are sampled.",
   note="Nothing is asserted about what a damaged file loads as. Budget overruns are C03 verdicts. Complete only per enumerated base file; across base files and for multi-fault combinations it is sampling.",
   tech="deterministic simulation: storage fault injection on writer-produced files, crash oracle"),
 "C03": dict(cat="exploration", ref="DESIGN.md §3 C03",
   text="Simulated CPU (step fuel ticked at six central engine sites), simulated memory (counting global allocator: 256 MiB live, 64 MiB single request), nesting depth 64 and a 10 s watchdog backstop. Workload: one control function per run after a short set-up (in a third of the CSI runs the same function 2-16 times over, so that clamps reading state the function itself changes compound), every CSI final x intermediates x 0-6 parameters from {empty,0,1,size,2^16,10^6,2^31-1}, self/mutually recursive and multiplicative macros, hex-macro repeats, sixel raster/repeat/colour headers, font DCS payloads with PSF header extremes, the rectangle functions with each edge independently on or far off the screen, Avatar repeats; every fourth run is a damaged file through the loaders under a 2e8-tick cap. Oracle: total ticks <= 16(n+1)W(H+n+1) + 4WH^2 + 5e5 (constants recorded; worst legitimate case measured at 15 % of the bound).",
   note="Ticks are placed by hand; a loop touching no tick site is caught only by the allocator budget or the wall-clock watchdog (confirmed by solo replay, counted separately). Nothing is claimed about real running time. Two genuine defects are recorded as known findings (known_findings.json, DESIGN.md 10.9) and printed as KNOWN-FINDING lines: an IcyDraw layer record declaring a huge width (identified by its class), and a SAUCE record declaring more than 1000 rows (identified by that property of the input; the generator's SAUCE fault keeps declared heights at or below 1000).",
   tech="deterministic simulation: resource (CPU/memory/stack) fault budgets as oracle"),
 "C08": dict(cat="exploration", ref="DESIGN.md §3 C08",
   text="Seeded edit histories over 63 public editing operations (plus current-layer / caret / selection / mirror-mode steering, also right before an undo) on 1-3 layer documents, with a second actor interleaving undo j / redo i<=j / undo-then-edit; the first 567 runs force every operation kind first, middle and last in histories of length 1-3. Reference model: observational snapshots (size, modes, palette, fonts, SAUCE, per-layer size/offset/properties/cells) recorded at every operation boundary; every undo/redo step that lands on a boundary must reproduce it, undo/redo must return Ok and not panic, an edit after undo must clear the redo history, an edit that adds no undo record must not change the document. 13 genuine defects are pinned as known findings (class = step kind + description of the operation being undone + differing field); a pinned class only covers histories containing one of the quarantined triggers, which the generator does not emit, so in this command it suppresses nothing.",
   note="An operation that returns Err or panics ends the history (counted, not a violation). Regressions inside a quarantined operation (set_layer_size, clear_layer, scroll_area_*, center, stamp_layer_down, alpha-locked layers, SAUCE of another size) are not searched for.",
   tech="deterministic simulation: history search with undo/redo schedule against a snapshot reference model"),
 "C09": dict(cat="exploration", ref="DESIGN.md §3 C09",
   text="Same sessions and line faults as C01 with a host biased to cursor motion, tabs, margins, origin mode, save/restore, resets and scrolling with a scrollback present. After every delivered byte (until a ResizeTerminal action is observed): 0 <= column < terminal width and first visible row <= row < first visible row + height; for Viewdata and Mode 7 the buffer, terminal and layer geometry stay 40x24.",
   note="The cursor may be anywhere inside the visible rows. Checking stops at the first ResizeTerminal action of a run.",
   tech="deterministic simulation: per-byte geometry invariant under line faults"),
 "C10": dict(cat="exploration", ref="DESIGN.md §3 C10 (as built)",
   text="A monitor inside terminal sessions (fill-rectangle code points incl. surrogates and > U+10FFFF, text and hex macros whose pairs spell well-formed, surrogate, out-of-range, overlong and broken UTF-8 units in closed and open repeat groups, OSC strings, font payloads of 0..2^17 glyphs) (one C10 run in sixteen is a RIP session with mouse regions and buttons; characters are also handed over as characters, not bytes; a quarter of the sessions start from a buffer with all rows allocated) and on every successful load of damaged files, fonts and clipboard payloads (disk faults, clipboard record faults, and faults applied inside the IcyDraw framing incl. a structure-aware one that sets a cell's 32-bit character field to values at the edges of the scalar range): every cell of every layer holds a Unicode scalar value, every glyph-table key of every font is one, and every engine-built string (layer titles, font names, SAUCE strings, hyperlink URLs, pending parser strings, stored macro bodies, the text of detected hyperlinks and of cell runs, host commands of RIP mouse fields) is valid UTF-8.",
   note="An invalid char is observed numerically after the fact (release profile). Scans after a control function cover the visible rows; periodic scans and the end-of-stream scan cover the whole scrollback. Stored macro bodies are read through a guarded read-only accessor.",
   tech="deterministic simulation: post-event scalar-value monitor under line, disk, clipboard and in-framing faults"),
 "C14": dict(cat="exploration", ref="DESIGN.md §3 C14",
   text="Seeded search over decode-completion orders and poll placements with the engine's real decode threads parked at a gate and released one at a time; the canonical schedule space (all orderings of arrivals and completions, <=2 polls per gap) is swept completely by run index for k<=3 images in the quick tier (33 561 schedules) and for k<=4 - the property's bound - in the thorough tier (2 100 276 schedules), larger k sampled; beyond the sweep a third of the sessions use a viewer's (non-terminal) buffer and a third carry erase-display commands between arrivals, releases and polls; raster attributes stand in front of, inside, after or on both sides of the pixel data. Oracles: rectangularity and declared-raster-size on every decode, arrival-order/shadowing reference model after every poll, no delivery of unfinished decodes, exactly-once, nothing that arrived before an erase display is queued or shown after it, poll never blocks (5 s watchdog, confirmed by solo replay), bounded liveness after all releases. One run in eight (beyond the sweep) loads the payloads as an ANSI file: the loader's drain loop runs on virtual sleeps under three release schedules and the resulting image layers must equal the arrival-order/shadowing model. Sampling, not proof.",
   note="Trusts: the gate hook (cfg icy_engine_verif) parks a decode before it reads its payload; the reference image of an arrival is computed by calling the real Sixel::parse_from synchronously; font cell is 8x16 in these runs. 'Never blocks' is a 5 s wall-clock judgement on a microsecond call.",
   tech="deterministic simulation: gated real threads, seeded schedule search, reference-model oracle"),
 "C16": dict(cat="exploration", ref="DESIGN.md §3 C16 (as built)",
   text="Palette-index stability under terminal streams: in seeded ANSI sessions biased to colour selection (SGR 38/48;5 and ;2 incl. repeated requests for colours from a small pool, CSI..t 24-bit colours, OSC 4 redefinitions, resets, line faults) the RGB every already-allocated palette index resolves to is compared after every byte (bytes inside an OSC string re-baseline it), and a lone true-colour request that started in ground state must leave the cursor carrying an index that resolves to exactly that colour. Direct seeded histories of insert / set / push / resize / lookup on palettes of 0-306 colours against a vector model. Riding along in those histories, as plain seeded generation without any schedule or fault: export -> import of the current palette over the five text formats x 16 metadata variants must give the same RGB sequence, and a sweep of all 64^3 six-bit colours must survive expand -> reduce -> expand.",
   note="The export/import and six-bit clauses are pure functions of one palette: they are checked, but by seeded generation, not by simulation. Non-ANSI emulations have no state hook: there the session monitor disarms once a ']' byte has been delivered. Colour names are not required to survive export/import.",
   tech="deterministic simulation: per-byte palette monitor under line faults + history search against a vector model (export/import clause: seeded generation only)"),
 "C20": dict(cat="exploration", ref="DESIGN.md §3 C20",
   text="RIPscrip and IGS sessions: the first 15 785 runs are systematic by run index - every command with every parameter-list length over digits {0,1,Z} (IGS: 0..12 numbers from {0,1,99999}), then two selector sweeps: every IGS state-setting command x arity 1-6 x (first, second) number in 0..8 x 0..12 and every RIP state-setting command x its first two fields in 0..16, each followed by one of every drawing command incl. degenerate polygons; later runs are seeded multi-command streams with line faults, an icon cache directory on a scratch file system (missing/empty/truncated/bit-flipped/oversized icons, a directory, mtimes before 1970 and in the future), virtual clock jumps, and a UI actor calling get_next_action and get_picture_data. Oracle: Ok/Err per byte, no panic, worker alive; each event within 256 x canvas ticks (stall); a loop never needs more get_next_action calls than |to-from|/max(step,1)+2 (fault-free runs); every exposed canvas has exactly width x height x 4 bytes.",
   note="Sleeping is not a stall (IGS delays run on the virtual clock). Cache-file lookups without extension are kept unambiguous so replay does not depend on read_dir order.",
   tech="deterministic simulation: command-stream search with file-system, clock and line faults; crash, step-budget and canvas oracles"),
}

NA = {
 "C04": "ANSI write->parse equality is a pure function of (buffer, options); no thread, clock, I/O, fault or interleaving to simulate. A property-based round-trip test is the right tool, not this technique.",
 "C05": "Save->load equality of XBin/BIN/ADF/IDF/Tundra is a pure function of the buffer; re-save stability a pure function of the file bytes. No seam.",
 "C06": "One pure compressor and one pure decoder; the property asks for exhaustive small-scope enumeration (bounded model checking), not simulation.",
 "C07": "IcyDraw save/load runs a PNG encoder/decoder over in-memory vectors; a function of the document. No seam.",
 "C11": "The only seam (wall clock in the SAUCE writer) does not influence anything the property observes; everything compared is a function of (metadata, content).",
 "C12": "ColorOptimizer::optimize and render_to_rgba are pure; nothing to schedule or fault.",
 "C13": "Buffer::get_char is a pure function of the layer stack; the laws are relational properties of one call.",
 "C15": "Writer/parser pairs for Avatar, PCBoard, Ctrl-A, Renegade, ASCII, ATASCII are pure functions of the buffer.",
 "C17": "Font encodings (PSF2, raw, DCS string, embedded blocks, TDF) are pure encode/decode pairs.",
 "C18": "Finite pure codecs; the property asks for complete enumeration of 256- and 65 536-element domains.",
 "C19": "CRC routines are pure; the property asks for table-entry-by-entry comparison with the defining recurrence.",
}

def main():
    props = [json.loads(l)["id"] for l in open("/verif/properties.jsonl")]
    checks = []
    for p in props:
        if p in CLAIMED:
            c = CLAIMED[p]
            checks.append({
                "property_id": p,
                "quick_cmd": f"./run.sh check {p} quick",
                "thorough_cmd": f"./run.sh check {p} thorough",
                "evidence_file": f"/verif/evidence/{p}.json",
                "replay_cmd_template": "./run.sh replay {path}",
                "engine": "sim",
                "level_claimed": {"category": c["cat"], "text": c["text"], "design_ref": c["ref"]},
                "level_note": c["note"],
                "technique": c["tech"],
            })
    na = [{"property_id": p, "reason": NA.get(p, "not yet decided by this machinery (in progress); see DESIGN.md")} for p in props if p not in CLAIMED]
    m = {
        "version": 1,
        "setup_cmd": "./run.sh build",
        "hooks": {
            "guard": "--cfg icy_engine_verif",
            "enable": "RUSTFLAGS='--cfg icy_engine_verif' via /verif/sim/.cargo/config.toml; the harness depends on /repo by path",
            "baseline_off_cmd": "cd /repo && cargo test --workspace --no-fail-fast --offline",
            "source_commits": commits(),
            "add_only": True,
        },
        "engines": [{"name": "sim", "path": "/verif/sim", "serves_properties": sorted(CLAIMED), "kind_free_text": "deterministic simulator: supervisor + worker processes, seeded trace generators, executors over the real engine, reference models, minimiser"}],
        "checks": checks,
        "not_applicable": na,
        "notes": "Known findings and the list of repaired defects: /verif/known_findings.json (13 pinned for C08, 2 for C03; 97 'fixed:' lines). Exit codes: 0 held, 1 violation (VIOLATION line with replay file), 2 harness error. VERIF_SEED selects the seed (default 20261004); VERIF_SCALE scales run counts; VERIF_WORKERS the process count.",
    }
    json.dump(m, open("/verif/MANIFEST.json", "w"), indent=1)
    print("claimed", sorted(CLAIMED), "n/a", len(na))

main()
