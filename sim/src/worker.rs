//! Worker process: derives each run's trace from (seed, property, run index), executes it, and
//! reports aggregated counters per range. Talks to the supervisor over its original stdout; the
//! engine's own println! output goes to /dev/null.

use crate::scenario::{self, Tier};
use crate::trace::{Outcome, Trace, Violation};
use serde::{Deserialize, Serialize};
use std::collections::{BTreeMap, BTreeSet};
use std::io::{BufRead, Write};
use std::os::unix::io::FromRawFd;

#[derive(Serialize, Deserialize, Default, Clone, Debug)]
pub struct Agg {
    pub runs: u64,
    pub events: u64,
    pub bytes: u64,
    pub sim_ms: u64,
    pub counters: BTreeMap<String, u64>,
    pub maxima: BTreeMap<String, u64>,
    pub sigs: BTreeMap<String, BTreeSet<u64>>,
    /// order-independent digest over (run, trace digest, outcome digest)
    pub digest: u64,
    pub replays_agreed: u64,
    pub replays_diverged: u64,
    pub diverged_runs: Vec<u64>,
    /// per-run outcome digests, only collected for the determinism self-check
    #[serde(default)]
    pub per_run: Vec<(u64, u64)>,
    pub samples: Vec<(u64, Trace)>,
    pub violations: Vec<(u64, Violation)>,
    pub harness_errors: Vec<(u64, String)>,
}

impl Agg {
    pub fn add_outcome(&mut self, run: u64, trace_digest: u64, o: &Outcome) {
        self.runs += 1;
        self.events += o.stats.events;
        self.bytes += o.stats.bytes;
        self.sim_ms += o.stats.sim_ms;
        for (k, v) in &o.stats.counters {
            *self.counters.entry(k.clone()).or_insert(0) += v;
        }
        for (k, v) in &o.stats.maxima {
            let e = self.maxima.entry(k.clone()).or_insert(0);
            if *v > *e {
                *e = *v;
            }
        }
        for (k, v) in &o.stats.sigs {
            let e = self.sigs.entry(k.clone()).or_default();
            for h in v {
                e.insert(*h);
            }
        }
        let d = crate::rng::mix(crate::rng::mix(run, trace_digest), o.digest ^ crate::rng::fnv(&o.ended));
        self.digest ^= d;
        if std::env::var("VERIF_PER_RUN").is_ok() {
            self.per_run.push((run, d));
        }
        if let Some(v) = &o.violation {
            self.violations.push((run, v.clone()));
        }
        if o.ended.starts_with("harness_error") {
            self.harness_errors.push((run, o.ended.clone()));
        }
    }

    pub fn merge(&mut self, o: Agg) {
        self.runs += o.runs;
        self.events += o.events;
        self.bytes += o.bytes;
        self.sim_ms += o.sim_ms;
        for (k, v) in o.counters {
            *self.counters.entry(k).or_insert(0) += v;
        }
        for (k, v) in o.maxima {
            let e = self.maxima.entry(k).or_insert(0);
            if v > *e {
                *e = v;
            }
        }
        for (k, v) in o.sigs {
            self.sigs.entry(k).or_default().extend(v);
        }
        self.digest ^= o.digest;
        self.replays_agreed += o.replays_agreed;
        self.replays_diverged += o.replays_diverged;
        self.diverged_runs.extend(o.diverged_runs);
        self.samples.extend(o.samples);
        self.per_run.extend(o.per_run);
        self.violations.extend(o.violations);
        self.harness_errors.extend(o.harness_errors);
    }
}

#[derive(Serialize, Deserialize, Debug)]
#[serde(tag = "cmd", rename_all = "snake_case")]
pub enum Cmd {
    Range { from: u64, to: u64 },
    Trace { trace: Trace },
    Minimise { trace: Trace, class: String },
    Quit,
}

#[derive(Serialize, Deserialize, Debug)]
#[serde(tag = "reply", rename_all = "snake_case")]
pub enum Reply {
    Range { from: u64, to: u64, agg: Agg },
    Outcome { outcome: Outcome },
    Minimised { trace: Trace, candidates: u64 },
}

pub fn silence_stdio() -> std::fs::File {
    unsafe {
        let saved = libc::dup(1);
        let devnull = libc::open(b"/dev/null\0".as_ptr().cast(), libc::O_WRONLY);
        libc::dup2(devnull, 1);
        if std::env::var("VERIF_WORKER_STDERR").is_err() {
            libc::dup2(devnull, 2);
        }
        std::fs::File::from_raw_fd(saved)
    }
}

pub fn worker_main(prop: &str, tier: Tier, seed: u64, status: Option<&str>) {
    let mut out = silence_stdio();
    if let Some(p) = status {
        crate::guard::status_open(p);
    }
    crate::guard::install_panic_hook();
    crate::guard::start_watchdog();
    // touch the engine's lazy statics outside any budget
    warm_up();

    let stdin = std::io::stdin();
    for line in stdin.lock().lines() {
        let Ok(line) = line else { break };
        if line.trim().is_empty() {
            continue;
        }
        let cmd: Cmd = match serde_json::from_str(&line) {
            Ok(c) => c,
            Err(e) => {
                let _ = writeln!(out, "{{\"reply\":\"error\",\"msg\":{:?}}}", e.to_string());
                continue;
            }
        };
        let reply = match cmd {
            Cmd::Quit => break,
            Cmd::Range { from, to } => {
                let mut agg = Agg::default();
                for run in from..to {
                    crate::guard::status_run(run);
                    let t = scenario::generate(prop, tier, seed, run);
                    let td = t.digest();
                    let o = scenario::execute(&t);
                    if run % 50 == 7 {
                        let o2 = scenario::execute(&t);
                        if o2.digest == o.digest && o2.ended == o.ended && o2.violation == o.violation {
                            agg.replays_agreed += 1;
                        } else {
                            agg.replays_diverged += 1;
                            agg.diverged_runs.push(run);
                        }
                    }
                    agg.add_outcome(run, td, &o);
                    if run < 3 {
                        agg.samples.push((run, t));
                    }
                }
                Reply::Range { from, to, agg }
            }
            Cmd::Trace { trace } => {
                crate::guard::status_run(u64::MAX);
                Reply::Outcome {
                    outcome: scenario::execute(&trace),
                }
            }
            Cmd::Minimise { trace, class } => {
                crate::guard::status_run(u64::MAX);
                let mut n = 0u64;
                let m = crate::minimize::minimise(&trace, &mut |t: &Trace| {
                    n += 1;
                    scenario::execute(t).violation.map(|v| v.class == class).unwrap_or(false)
                });
                Reply::Minimised { trace: m, candidates: n }
            }
        };
        let s = serde_json::to_string(&reply).unwrap_or_else(|_| "{}".into());
        if writeln!(out, "{s}").is_err() {
            break;
        }
        let _ = out.flush();
    }
    crate::fsbox::cleanup_root();
}

pub fn warm_up() {
    use icy_engine::{Buffer, TextPane};
    let b = Buffer::new((2, 2));
    let _ = b.get_char((0, 0));
    let _ = icy_engine::BitFont::default();
    let _ = icy_engine::Palette::dos_default();
    let _ = icy_engine::FORMATS.len();
}
