//! C08: edit histories with undo/redo interleavings against a snapshot reference model.

use crate::guard;
use crate::rng::Rng;
use crate::trace::{from_hex, to_hex, Ev, Outcome, RunStats, Trace, Violation};
use icy_engine::editor::{EditState, UndoState};
use icy_engine::{
    AttributedChar, BitFont, Buffer, IceMode, Layer, Palette, PaletteMode, Position, Properties, Rectangle, SauceData, SauceString, Size, TextAttribute, TextPane,
};
use std::collections::BTreeMap;
use std::panic::{catch_unwind, AssertUnwindSafe};

/// (name, number of numeric arguments)
pub const OPS: &[(&str, usize)] = &[
    ("set_char", 5),
    ("swap_char", 4),
    ("paste_clipboard_data", 4),
    ("anchor_layer", 0),
    ("add_floating_layer", 0),
    ("resize_buffer", 3),
    ("crop", 0),
    ("crop_rect", 4),
    ("erase_selection", 0),
    ("flip_x", 0),
    ("flip_y", 0),
    ("justify_left", 0),
    ("justify_right", 0),
    ("center", 0),
    ("center_line", 0),
    ("justify_line_left", 0),
    ("justify_line_right", 0),
    ("delete_row", 0),
    ("insert_row", 0),
    ("insert_column", 0),
    ("delete_column", 0),
    ("erase_row", 0),
    ("erase_row_to_start", 0),
    ("erase_row_to_end", 0),
    ("erase_column", 0),
    ("erase_column_to_start", 0),
    ("erase_column_to_end", 0),
    ("scroll_area_up", 0),
    ("scroll_area_down", 0),
    ("scroll_area_left", 0),
    ("scroll_area_right", 0),
    ("add_new_layer", 1),
    ("remove_layer", 1),
    ("raise_layer", 1),
    ("lower_layer", 1),
    ("duplicate_layer", 1),
    ("clear_layer", 1),
    ("merge_layer_down", 1),
    ("toggle_layer_visibility", 1),
    ("move_layer", 2),
    ("set_layer_size", 3),
    ("stamp_layer_down", 0),
    ("rotate_layer", 0),
    ("make_layer_transparent", 0),
    ("update_layer_properties", 4),
    ("set_selection", 4),
    ("clear_selection", 0),
    ("deselect", 0),
    ("add_selection_to_mask", 0),
    ("inverse_selection", 0),
    ("switch_to_palette", 1),
    ("update_sauce_data", 1),
    ("set_palette_mode", 1),
    ("set_ice_mode", 1),
    ("switch_to_font_page", 1),
    ("add_ansi_font", 1),
    ("set_ansi_font", 1),
    ("set_sauce_font", 1),
    ("add_font", 1),
    ("set_font", 1),
    ("replace_font_usage", 2),
    ("change_font_slot", 2),
    ("remove_font", 1),
];

/// Operations (and argument shapes) whose undo is a recorded known finding. The generator does not emit
/// them, so that no seed can stumble over a pinned defect; their witnesses are replayed on every run.
/// Does the history contain one of the triggers the generator keeps away from (see QUARANTINED_OPS and the two
/// quarantined argument values)? A pinned C08 class only covers histories that do.
pub fn has_quarantined_trigger(t: &Trace) -> bool {
    t.events.iter().any(|ev| match ev {
        Ev::Op { name, args, .. } => {
            QUARANTINED_OPS.contains(&name.as_str())
                || (name == "update_layer_properties" && args.get(1).copied().unwrap_or(0) & 16 != 0)
                || (name == "update_sauce_data" && args.first().copied().unwrap_or(0) >= 7)
        }
        _ => false,
    })
}

pub const QUARANTINED_OPS: &[&str] = &["set_layer_size", "clear_layer", "scroll_area_up", "scroll_area_down", "scroll_area_left", "scroll_area_right", "center", "stamp_layer_down"];

/// state that steers the operations; not edits
pub const STEER: &[(&str, usize)] = &[("set_current_layer", 1), ("set_caret", 2), ("set_mirror_mode", 1)];

const SAUCE_FONTS: [&str; 4] = ["IBM VGA", "IBM VGA50", "Amiga Topaz 1", "no such font"];

// ------------------------------------------------------------------ document recipe

/// cfg.doc = [w, h, seed, nlayers, then per extra layer: w, h, offx, offy, flags]
pub fn build_doc(recipe: &[i64]) -> EditState {
    let g = |i: usize, d: i64| recipe.get(i).copied().unwrap_or(d);
    let w = g(0, 8).clamp(1, 40) as i32;
    let h = g(1, 4).clamp(1, 20) as i32;
    let mut rng = Rng::new(g(2, 1) as u64);
    // recipe[3]: number of extra layers, plus 10 for "rich" cell attributes (bright backgrounds, blink, bold: what the
    // iCE / blink mode switch rewrites); plain recipes keep producing exactly the documents they always did
    let rich = g(3, 0) >= 10;
    let extra = (g(3, 0) % 10).clamp(0, 2) as usize;
    let mut buf = Buffer::new((w, h));
    // the low bits of the content seed choose the font mode, so that font operations are reachable
    buf.font_mode = match g(2, 1) % 4 {
        0 => icy_engine::FontMode::Sauce,
        1 => icy_engine::FontMode::Unlimited,
        2 => icy_engine::FontMode::Single,
        _ => icy_engine::FontMode::FixedSize,
    };
    fill_layer(&mut rng, &mut buf.layers[0], rich);
    for i in 0..extra {
        let b = 4 + i * 5;
        let lw = g(b, 4).clamp(1, 24) as i32;
        let lh = g(b + 1, 3).clamp(1, 12) as i32;
        let mut l = Layer::new(format!("layer {}", i + 1), (lw, lh));
        let flags = g(b + 4, 0);
        l.properties.has_alpha_channel = flags & 1 != 0;
        l.set_offset((g(b + 2, 0).clamp(-6, 12) as i32, g(b + 3, 0).clamp(-6, 12) as i32));
        fill_layer(&mut rng, &mut l, rich);
        l.properties.is_visible = flags & 2 == 0;
        l.properties.is_locked = flags & 4 != 0;
        buf.layers.push(l);
    }
    EditState::from_buffer(buf)
}

fn fill_layer(rng: &mut Rng, l: &mut Layer, rich: bool) {
    let (w, h) = (l.get_width(), l.get_height());
    let n = (w * h / 2).max(1);
    for _ in 0..n {
        let x = rng.range(0, (w - 1) as i64) as i32;
        let y = rng.range(0, (h - 1) as i64) as i32;
        let mut a = TextAttribute::default();
        a.set_foreground(rng.below(16) as u32);
        a.set_background(rng.below(8) as u32);
        if rich {
            a.set_background(rng.below(16) as u32);
            a.set_is_blinking(rng.chance(1, 3));
            a.set_is_bold(rng.chance(1, 3));
        }
        l.set_char((x, y), AttributedChar::new((b'a' + rng.below(26) as u8) as char, a));
    }
}

// ------------------------------------------------------------------ snapshots

#[derive(Clone, PartialEq, Debug)]
pub struct LayerSnap {
    size: (i32, i32),
    offset: (i32, i32),
    props: String,
    cells: Vec<(u32, u16, u32, u32, usize, bool)>,
}

#[derive(Clone, PartialEq, Debug)]
pub struct Snap {
    size: (i32, i32),
    modes: String,
    palette: Vec<(u8, u8, u8)>,
    fonts: Vec<(usize, i32, i32, u64)>,
    sauce: String,
    layers: Vec<LayerSnap>,
}

pub fn snapshot(st: &EditState) -> Snap {
    let b = st.get_buffer();
    let mut fonts: Vec<(usize, i32, i32, u64)> = b
        .font_iter()
        .map(|(slot, f)| {
            let mut hsh = crate::rng::fnv(&f.name);
            let mut keys: Vec<(&char, &icy_engine::Glyph)> = f.glyphs.iter().collect();
            keys.sort_by_key(|k| *k.0 as u32);
            for (c, g) in keys {
                hsh = hsh.wrapping_mul(31).wrapping_add(*c as u64);
                hsh = hsh.wrapping_mul(31).wrapping_add(crate::rng::fnv_bytes(&g.data));
            }
            (*slot, f.size.width, f.size.height, hsh)
        })
        .collect();
    fonts.sort();
    let sauce = match b.get_sauce() {
        None => "none".to_string(),
        Some(s) => format!(
            "{}|{}|{}|{:?}|{}x{}|{}{}{}|{:?}",
            s.title,
            s.author,
            s.group,
            s.comments.iter().map(ToString::to_string).collect::<Vec<_>>(),
            s.buffer_size.width,
            s.buffer_size.height,
            u8::from(s.use_ice),
            u8::from(s.use_letter_spacing),
            u8::from(s.use_aspect_ratio),
            s.font_opt
        ),
    };
    let layers = b
        .layers
        .iter()
        .map(|l| {
            let p: &Properties = &l.properties;
            let mut cells = Vec::new();
            for y in 0..l.get_height().clamp(0, 200) {
                for x in 0..l.get_width().clamp(0, 200) {
                    let c = l.get_char((x, y));
                    if c.is_visible() {
                        cells.push((c.ch as u32, c.attribute.attr, c.attribute.get_foreground(), c.attribute.get_background(), c.get_font_page(), true));
                    } else {
                        // an invisible cell is compared as invisible only: what it would hold is not part of the document
                        cells.push((0, 0, 0, 0, 0, false));
                    }
                }
            }
            LayerSnap {
                size: (l.get_width(), l.get_height()),
                offset: (l.get_offset().x, l.get_offset().y),
                props: format!(
                    "{}|vis={} lock={} poslock={} alpha={} alphalock={} mode={:?} color={:?} role={:?} transp={} dfp={}",
                    p.title, p.is_visible, p.is_locked, p.is_position_locked, p.has_alpha_channel, p.is_alpha_channel_locked, p.mode, p.color, l.role, l.transparency, l.default_font_page
                ),
                cells,
            }
        })
        .collect();
    Snap {
        size: (b.get_width(), b.get_height()),
        modes: format!("{:?}/{:?}/{:?}/{:?}", b.buffer_type, b.ice_mode, b.palette_mode, b.font_mode),
        palette: (0..b.palette.len()).map(|i| b.palette.get_rgb(i as u32)).collect(),
        fonts,
        sauce,
        layers,
    }
}

pub fn diff(a: &Snap, b: &Snap) -> String {
    if a.size != b.size {
        return format!("buffer size {:?} vs {:?}", a.size, b.size);
    }
    if a.modes != b.modes {
        return format!("modes {} vs {}", a.modes, b.modes);
    }
    if a.palette != b.palette {
        let i = a.palette.iter().zip(&b.palette).position(|(x, y)| x != y);
        return format!("palette ({} vs {} colours, first difference at {:?})", a.palette.len(), b.palette.len(), i);
    }
    if a.fonts != b.fonts {
        return format!("fonts {:?} vs {:?}", a.fonts.iter().map(|f| f.0).collect::<Vec<_>>(), b.fonts.iter().map(|f| f.0).collect::<Vec<_>>());
    }
    if a.sauce != b.sauce {
        return "SAUCE data".into();
    }
    if a.layers.len() != b.layers.len() {
        return format!("{} layers vs {}", a.layers.len(), b.layers.len());
    }
    for (i, (x, y)) in a.layers.iter().zip(&b.layers).enumerate() {
        if x.size != y.size {
            return format!("layer {i} size {:?} vs {:?}", x.size, y.size);
        }
        if x.offset != y.offset {
            return format!("layer {i} offset {:?} vs {:?}", x.offset, y.offset);
        }
        if x.props != y.props {
            return format!("layer {i} properties [{}] vs [{}]", x.props, y.props);
        }
        if x.cells != y.cells {
            let w = x.size.0.clamp(1, 200);
            let k = x.cells.iter().zip(&y.cells).position(|(p, q)| p != q).unwrap_or(0);
            return format!("layer {i} cell ({},{}): {:?} vs {:?}", k as i32 % w, k as i32 / w, x.cells.get(k), y.cells.get(k));
        }
    }
    "no difference".into()
}

// ------------------------------------------------------------------ operations

fn a(args: &[i64], i: usize) -> i64 {
    args.get(i).copied().unwrap_or(0)
}

fn font_for(n: i64) -> BitFont {
    BitFont::from_ansi_font_page((n.unsigned_abs() % 42) as usize).unwrap_or_default()
}

pub fn apply(st: &mut EditState, name: &str, args: &[i64], hex: &str) -> Result<(), String> {
    let e = |r: icy_engine::EngineResult<()>| r.map_err(|e| e.to_string());
    let us = |i: usize| a(args, i).max(0) as usize;
    let i32a = |i: usize| a(args, i).clamp(-100_000, 100_000) as i32;
    match name {
        "set_current_layer" => {
            st.set_current_layer(us(0));
            Ok(())
        }
        "set_caret" => {
            st.get_caret_mut().set_position(Position::new(i32a(0), i32a(1)));
            Ok(())
        }
        "set_mirror_mode" => {
            // an editor setting, not document state: typed characters are mirrored at the vertical axis
            st.set_mirror_mode(a(args, 0) != 0);
            Ok(())
        }
        "set_char" => {
            let mut at = TextAttribute::default();
            at.set_foreground(a(args, 3).clamp(0, 15) as u32);
            at.set_background(a(args, 4).clamp(0, 15) as u32);
            let ch = char::from_u32(a(args, 2).clamp(0, 0xD7FF) as u32).unwrap_or('x');
            e(st.set_char((i32a(0), i32a(1)), AttributedChar::new(ch, at)))
        }
        "swap_char" => e(st.swap_char((i32a(0), i32a(1)), (i32a(2), i32a(3)))),
        "paste_clipboard_data" => {
            let data = if hex.is_empty() {
                // a small block of cells at (x, y)
                let (w, h) = (a(args, 2).clamp(1, 6) as u32, a(args, 3).clamp(1, 4) as u32);
                let mut d = vec![0u8];
                d.extend(i32a(0).to_le_bytes());
                d.extend(i32a(1).to_le_bytes());
                d.extend(w.to_le_bytes());
                d.extend(h.to_le_bytes());
                for k in 0..w * h {
                    d.extend((u16::from(b'A') + (k % 26) as u16).to_le_bytes());
                    d.extend(0u16.to_le_bytes());
                    d.extend(0u16.to_le_bytes());
                    d.extend(1u32.to_le_bytes());
                    d.extend(14u32.to_le_bytes());
                }
                d
            } else {
                from_hex(hex)
            };
            e(st.paste_clipboard_data(&data))
        }
        "anchor_layer" => e(st.anchor_layer()),
        "add_floating_layer" => e(st.add_floating_layer()),
        "resize_buffer" => e(st.resize_buffer(a(args, 0) != 0, Size::new(i32a(1), i32a(2)))),
        "crop" => e(st.crop()),
        "crop_rect" => e(st.crop_rect(Rectangle::from_min_size((i32a(0), i32a(1)), (i32a(2), i32a(3))))),
        "erase_selection" => e(st.erase_selection()),
        "flip_x" => e(st.flip_x()),
        "flip_y" => e(st.flip_y()),
        "justify_left" => e(st.justify_left()),
        "justify_right" => e(st.justify_right()),
        "center" => e(st.center()),
        "center_line" => e(st.center_line()),
        "justify_line_left" => e(st.justify_line_left()),
        "justify_line_right" => e(st.justify_line_right()),
        "delete_row" => e(st.delete_row()),
        "insert_row" => e(st.insert_row()),
        "insert_column" => e(st.insert_column()),
        "delete_column" => e(st.delete_column()),
        "erase_row" => e(st.erase_row()),
        "erase_row_to_start" => e(st.erase_row_to_start()),
        "erase_row_to_end" => e(st.erase_row_to_end()),
        "erase_column" => e(st.erase_column()),
        "erase_column_to_start" => e(st.erase_column_to_start()),
        "erase_column_to_end" => e(st.erase_column_to_end()),
        "scroll_area_up" => e(st.scroll_area_up()),
        "scroll_area_down" => e(st.scroll_area_down()),
        "scroll_area_left" => e(st.scroll_area_left()),
        "scroll_area_right" => e(st.scroll_area_right()),
        "add_new_layer" => e(st.add_new_layer(us(0))),
        "remove_layer" => e(st.remove_layer(us(0))),
        "raise_layer" => e(st.raise_layer(us(0))),
        "lower_layer" => e(st.lower_layer(us(0))),
        "duplicate_layer" => e(st.duplicate_layer(us(0))),
        "clear_layer" => e(st.clear_layer(us(0))),
        "merge_layer_down" => e(st.merge_layer_down(us(0))),
        "toggle_layer_visibility" => e(st.toggle_layer_visibility(us(0))),
        "move_layer" => e(st.move_layer(Position::new(i32a(0), i32a(1)))),
        "set_layer_size" => e(st.set_layer_size(us(0), Size::new(i32a(1), i32a(2)))),
        "stamp_layer_down" => e(st.stamp_layer_down()),
        "rotate_layer" => e(st.rotate_layer()),
        "make_layer_transparent" => e(st.make_layer_transparent()),
        "update_layer_properties" => {
            let l = us(0);
            let Some(layer) = st.get_buffer().layers.get(l) else {
                return Err("no such layer".into());
            };
            let mut p = layer.properties.clone();
            let f = a(args, 1);
            p.title = format!("t{}", a(args, 2));
            p.is_visible = f & 1 == 0;
            p.has_alpha_channel = f & 2 != 0;
            p.is_locked = f & 4 != 0;
            p.is_position_locked = f & 8 != 0;
            p.is_alpha_channel_locked = f & 16 != 0;
            p.offset = Position::new(i32a(2), i32a(3));
            e(st.update_layer_properties(l, p))
        }
        "set_selection" => e(st.set_selection(Rectangle::from_min_size((i32a(0), i32a(1)), (i32a(2), i32a(3))))),
        "clear_selection" => e(st.clear_selection()),
        "deselect" => e(st.deselect()),
        "add_selection_to_mask" => e(st.add_selection_to_mask()),
        "inverse_selection" => e(st.inverse_selection()),
        "switch_to_palette" => {
            let mut p = match a(args, 0) % 3 {
                0 => Palette::dos_default(),
                1 => Palette::new(),
                _ => {
                    let mut p = Palette::dos_default();
                    p.insert_color_rgb(1, 2, 3);
                    p.insert_color_rgb(200, 100, 50);
                    p
                }
            };
            if a(args, 0) > 5 {
                p.set_color_rgb(3, 9, 9, 9);
            }
            e(st.switch_to_palette(p))
        }
        "update_sauce_data" => {
            let s = if a(args, 0) % 3 == 0 {
                None
            } else {
                let mut s = SauceData::default();
                s.title = SauceString::from(&format!("title {}", a(args, 0)));
                s.author = SauceString::from("author");
                if a(args, 0) % 3 == 2 {
                    s.comments.push(SauceString::from("a comment"));
                }
                // the SAUCE record a user interface writes carries the size of the document it belongs to
                if a(args, 0) < 7 {
                    s.buffer_size = st.get_buffer().get_size();
                }
                Some(s)
            };
            e(st.update_sauce_data(s))
        }
        "set_palette_mode" => e(st.set_palette_mode(match a(args, 0) % 4 {
            0 => PaletteMode::RGB,
            1 => PaletteMode::Fixed16,
            2 => PaletteMode::Free8,
            _ => PaletteMode::Free16,
        })),
        "set_ice_mode" => e(st.set_ice_mode(match a(args, 0) % 3 {
            0 => IceMode::Unlimited,
            1 => IceMode::Blink,
            _ => IceMode::Ice,
        })),
        "switch_to_font_page" => e(st.switch_to_font_page(us(0))),
        "add_ansi_font" => e(st.add_ansi_font(us(0))),
        "set_ansi_font" => e(st.set_ansi_font(us(0))),
        "set_sauce_font" => e(st.set_sauce_font(SAUCE_FONTS[us(0) % SAUCE_FONTS.len()])),
        "add_font" => e(st.add_font(font_for(a(args, 0)))),
        "set_font" => e(st.set_font(font_for(a(args, 0)))),
        "replace_font_usage" => e(st.replace_font_usage(us(0), us(1))),
        "change_font_slot" => e(st.change_font_slot(us(0), us(1))),
        "remove_font" => e(st.remove_font(us(0))),
        other => Err(format!("harness: unknown operation {other}")),
    }
}

fn viol(kind: &str, name: &str, detail: String, at: usize) -> Violation {
    Violation {
        property: "C08".into(),
        kind: kind.into(),
        class: format!("{kind}:{name}"),
        detail,
        at_event: at,
    }
}

/// One undo or redo step, checked against the boundary snapshots of the reference model.
fn step(st: &mut EditState, is_undo: bool, boundaries: &BTreeMap<usize, Snap>, at: usize, stats: &mut RunStats) -> Option<Violation> {
    let what = if is_undo { "undo" } else { "redo" };
    // which operation is being undone / redone: the key that survives refactoring
    let desc = if is_undo { st.undo_description() } else { st.redo_description() }.unwrap_or_else(|| "?".into());
    let r = catch_unwind(AssertUnwindSafe(|| if is_undo { st.undo() } else { st.redo() }));
    match r {
        Err(_) => {
            let recs = guard::take_panics();
            let rec = recs.first().cloned().unwrap_or_default();
            Some(viol(&format!("{what}_panicked"), &desc, format!("{what} of '{desc}' panicked at {}: {} [{}]", rec.location, rec.message, rec.function), at))
        }
        Ok(Err(m)) => Some(viol(&format!("{what}_failed"), &desc, format!("{what} of '{desc}' returned an error: {m}"), at)),
        Ok(Ok(())) => {
            stats.count(if is_undo { "undos" } else { "redos" });
            let len = st.undo_stack_len();
            if let Some(want) = boundaries.get(&len) {
                let have = snapshot(st);
                stats.count("boundary_checks");
                if *want != have {
                    let d = diff(want, &have);
                    // what differs, without indices: part of the class key
                    let field: String = d.split([' ', '(', '[']).filter(|w| !w.is_empty() && !w.chars().next().unwrap_or('0').is_ascii_digit()).take(if d.starts_with("layer") { 2 } else { 1 }).collect::<Vec<_>>().join("_");
                    return Some(viol(
                        &format!("{what}_mismatch"),
                        &format!("{desc}:{field}"),
                        format!("after {what} of '{desc}' (history length {len}) the document differs from what it was at that point: {}", diff(want, &have)),
                        at,
                    ));
                }
            }
            None
        }
    }
}

pub fn run_edit(trace: &Trace) -> Outcome {
    let mut stats = RunStats::default();
    let mut digest: u64 = 77;
    guard::phase(1);
    guard::take_panics();
    guard::mem_begin(512 << 20, 128 << 20);
    icy_engine::verif_hooks::set_fuel(200_000_000, 64);
    let mut st = build_doc(&trace.cfg.doc);
    let base_len = st.undo_stack_len();
    let s0 = snapshot(&st);
    let mut boundaries: BTreeMap<usize, Snap> = BTreeMap::new();
    boundaries.insert(base_len, s0.clone());
    let mut violation: Option<Violation> = None;
    let mut ended = String::from("completed");
    let mut after_undo = false;
    let mut kinds: Vec<String> = Vec::new();
    let mut shape = String::new();

    for (ei, ev) in trace.events.iter().enumerate() {
        stats.events += 1;
        match ev {
            Ev::Op { name, args, hex } => {
                let steer = STEER.iter().any(|s| s.0 == name);
                let len_before = st.undo_stack_len();
                let r = catch_unwind(AssertUnwindSafe(|| apply(&mut st, name, args, hex)));
                match r {
                    Err(_) => {
                        // the property speaks about operations that report success; a panicking one ends the history
                        guard::take_panics();
                        stats.count("probe_op_panicked");
                        stats.count(&format!("op_panicked:{name}"));
                        stats.sig("op_panicked", crate::rng::fnv(name));
                        ended = "op_panicked".into();
                        break;
                    }
                    Ok(Err(m)) => {
                        if m.starts_with("harness:") {
                            ended = format!("harness_error:{m}");
                            break;
                        }
                        stats.count("probe_op_failed");
                        stats.count(&format!("op_failed:{name}:{}", crate::term::err_class(&m)));
                        ended = "op_failed".into();
                        break;
                    }
                    Ok(Ok(())) => {
                        if steer {
                            shape.push('s');
                            continue;
                        }
                        stats.count("ops_ok");
                        shape.push('o');
                        kinds.push(name.clone());
                        let len_after = st.undo_stack_len();
                        if after_undo && st.can_redo() && len_after != len_before {
                            violation = Some(viol("redo_not_discarded", name, format!("after an undo, the edit {name} left the redo history in place"), ei));
                            break;
                        }
                        if len_after != len_before {
                            after_undo = false;
                        }
                        // boundaries above the point where this edit started are gone
                        let stale: Vec<usize> = boundaries.keys().copied().filter(|k| *k > len_before).collect();
                        for k in stale {
                            boundaries.remove(&k);
                        }
                        let snap = snapshot(&st);
                        digest = digest.wrapping_mul(31).wrapping_add(snap.layers.len() as u64 + (len_after as u64) * 7);
                        if len_after == len_before {
                            // no undo record: the document must not have changed either
                            if let Some(prev) = boundaries.get(&len_before) {
                                if *prev != snap {
                                    violation = Some(viol(
                                        "edit_without_undo_record",
                                        name,
                                        format!("{name} reported success and changed the document ({}) without adding an undo step", diff(prev, &snap)),
                                        ei,
                                    ));
                                    break;
                                }
                            }
                        }
                        boundaries.insert(len_after, snap);
                    }
                }
            }
            Ev::Undo | Ev::Redo => {
                let is_undo = matches!(ev, Ev::Undo);
                shape.push(if is_undo { 'u' } else { 'r' });
                if is_undo && st.undo_stack_len() <= base_len {
                    continue;
                }
                if !is_undo && !st.can_redo() {
                    continue;
                }
                if let Some(v) = step(&mut st, is_undo, &boundaries, ei, &mut stats) {
                    violation = Some(v);
                    break;
                }
                if is_undo {
                    after_undo = true;
                }
            }
            _ => {
                ended = "harness_error:event not valid in an edit history".into();
                break;
            }
        }
    }

    // the closing schedule: undo everything the history added, then redo everything, one step at a time
    if violation.is_none() && ended == "completed" {
        let at = trace.events.len();
        let mut n = 0;
        while violation.is_none() && st.undo_stack_len() > base_len && n < 10_000 {
            violation = step(&mut st, true, &boundaries, at, &mut stats);
            n += 1;
        }
        if violation.is_none() {
            stats.count("undo_to_initial_checked");
        }
        while violation.is_none() && st.can_redo() && n < 20_000 {
            violation = step(&mut st, false, &boundaries, at, &mut stats);
            n += 1;
        }
        if violation.is_none() {
            stats.count("redo_to_final_checked");
        }
    }
    icy_engine::verif_hooks::set_fuel(icy_engine::verif_hooks::UNLIMITED, u32::MAX);
    drop(st);
    guard::mem_end();
    guard::take_panics();
    if violation.is_some() {
        ended = "violation".into();
    }
    // reach: operation trigrams, interleaving shape, document shape
    for w in kinds.windows(3) {
        stats.sig("op_trigram", crate::rng::fnv(&w.join(">")));
    }
    for w in kinds.windows(2) {
        stats.sig("op_bigram", crate::rng::fnv(&w.join(">")));
    }
    stats.sig("history_shape", crate::rng::fnv(&shape));
    stats.sig("doc_shape", crate::rng::fnv(&format!("{:?}", trace.cfg.doc.iter().take(2).chain(trace.cfg.doc.iter().skip(3)).collect::<Vec<_>>())));
    guard::phase(0);
    Outcome {
        violation,
        ended,
        stats,
        digest,
    }
}

// ------------------------------------------------------------------ generator

fn gen_args(rng: &mut Rng, name: &str, w: i64, h: i64, layers: i64) -> Vec<i64> {
    let coord = |rng: &mut Rng, size: i64| -> i64 {
        match rng.below(8) {
            0 => 0,
            1 => size - 1,
            2 => size,
            3 => -1,
            _ => rng.range(0, (size - 1).max(0)),
        }
    };
    let layer = |rng: &mut Rng| -> i64 {
        if rng.chance(1, 16) {
            layers
        } else {
            rng.range(0, (layers - 1).max(0))
        }
    };
    let dim = |rng: &mut Rng, size: i64| -> i64 {
        match rng.below(6) {
            0 => 1,
            1 => size,
            2 => size + 1 + rng.range(0, 3),
            3 => (size / 2).max(1),
            _ => rng.range(1, size + 3),
        }
    };
    match name {
        "set_char" => vec![coord(rng, w), coord(rng, h), *rng.pick(&[65, 32, 0, 219, 255, 0x263A]), rng.range(0, 15), rng.range(0, 7)],
        "swap_char" => {
            if rng.chance(1, 8) {
                vec![coord(rng, w), coord(rng, h), coord(rng, w), coord(rng, h)]
            } else {
                vec![rng.range(0, w - 1), rng.range(0, h - 1), rng.range(0, w - 1), rng.range(0, h - 1)]
            }
        }
        "merge_layer_down" if layers > 1 && !rng.chance(1, 10) => vec![rng.range(1, layers - 1)],
        "raise_layer" if layers > 1 && !rng.chance(1, 10) => vec![rng.range(0, layers - 2)],
        "lower_layer" if layers > 1 && !rng.chance(1, 10) => vec![rng.range(1, layers - 1)],
        "remove_font" | "switch_to_font_page" => vec![*rng.pick(&[0, 0, 1, 1, 2, 5])],
        "paste_clipboard_data" => vec![coord(rng, w), coord(rng, h), rng.range(1, 6), rng.range(1, 4)],
        "resize_buffer" => vec![rng.range(0, 1), dim(rng, w), dim(rng, h)],
        "crop_rect" | "set_selection" => {
            let x = coord(rng, w).max(-1);
            let y = coord(rng, h).max(-1);
            vec![x, y, rng.range(if name == "crop_rect" { 1 } else { 0 }, w + 1), rng.range(if name == "crop_rect" { 1 } else { 0 }, h + 1)]
        }
        "move_layer" => vec![rng.range(-4, w), rng.range(-4, h)],
        "set_layer_size" => vec![layer(rng), dim(rng, w), dim(rng, h)],
        // bit 16 (alpha channel locked) is quarantined: writes to such a layer are partial and not undone
        "update_layer_properties" => vec![layer(rng), rng.range(0, if std::env::var("VERIF_NO_QUARANTINE").is_ok() { 31 } else { 15 }), rng.range(-3, 6), rng.range(-3, 6)],
        "set_current_layer" => vec![layer(rng)],
        // the caret of an editor is always on a cell of the document
        "set_caret" => vec![coord(rng, w), coord(rng, h)],
        "set_mirror_mode" => vec![rng.range(0, 1)],
        "switch_to_palette" => vec![rng.range(0, 8)],
        // 7 and above (a SAUCE record carrying a size other than the document's) is quarantined
        "update_sauce_data" => vec![rng.range(0, if std::env::var("VERIF_NO_QUARANTINE").is_ok() { 8 } else { 6 })],
        "set_palette_mode" | "set_ice_mode" | "set_sauce_font" => vec![rng.range(0, 5)],
        "switch_to_font_page" | "add_ansi_font" | "set_ansi_font" | "add_font" | "set_font" | "remove_font" => vec![*rng.pick(&[0, 1, 2, 5, 41, 42])],
        "replace_font_usage" | "change_font_slot" => vec![rng.range(0, 3), rng.range(0, 3)],
        n if OPS.iter().any(|o| o.0 == n && o.1 == 1) => vec![layer(rng)],
        _ => vec![],
    }
}

pub fn exhaustive_total() -> u64 {
    (OPS.len() * 3 * 3) as u64
}

pub fn gen_edit(rng: &mut Rng, run: u64, thorough: bool) -> Trace {
    let mut t = Trace::new("C08", "edit");
    let w = rng.range(1, 24);
    let h = rng.range(1, 12);
    let extra = match rng.below(4) {
        0 | 1 => 0,
        2 => 1,
        _ => 2,
    };
    let rich = if rng.chance(1, 3) { 10 } else { 0 };
    t.cfg.doc = vec![w, h, rng.range(1, 1_000_000), extra + rich];
    for _ in 0..extra {
        t.cfg.doc.extend([rng.range(1, 24), rng.range(1, 12), rng.range(-3, 8), rng.range(-3, 6), rng.range(0, 7)]);
    }
    let mut layers = 1 + extra;
    // first phase: every operation kind forced to appear first, in the middle and last of short histories
    let forced: Option<(usize, usize, usize)> = if run < exhaustive_total() {
        let k = (run % OPS.len() as u64) as usize;
        let pos = ((run / OPS.len() as u64) % 3) as usize;
        let len = 1 + ((run / (OPS.len() as u64 * 3)) % 3) as usize;
        Some((k, pos.min(len - 1), len))
    } else {
        None
    };
    let len = match forced {
        Some((_, _, l)) => l,
        None => match rng.below(4) {
            0 => 1 + rng.usize(3),
            1 => 1 + rng.usize(8),
            _ => 1 + rng.usize(if thorough { 60 } else { 40 }),
        },
    };
    let mut pending_undo = 0usize;
    if forced.is_none() && rng.chance(1, 5) {
        // a history on a hidden and / or locked layer: writes through the layer API are refused there, while
        // undo records that touch the rows directly are not
        let l = rng.range(0, layers - 1);
        t.events.push(Ev::Op {
            name: "set_current_layer".into(),
            args: vec![l],
            hex: String::new(),
        });
        t.events.push(Ev::Op {
            name: "update_layer_properties".into(),
            args: vec![l, *rng.pick(&[1i64, 4, 5, 3, 6]), 0, 0],
            hex: String::new(),
        });
        pending_undo += 1;
        t.labels.push("mood=hidden_or_locked".into());
    }
    for i in 0..len {
        // steering between operations
        if rng.chance(1, 4) {
            let s = *rng.pick(STEER);
            t.events.push(Ev::Op {
                name: s.0.into(),
                args: gen_args(rng, s.0, w, h, layers),
                hex: String::new(),
            });
        }
        if rng.chance(1, 5) && !matches!(forced, Some((_, p, _)) if p == i) {
            t.events.push(Ev::Op {
                name: "set_selection".into(),
                args: gen_args(rng, "set_selection", w, h, layers),
                hex: String::new(),
            });
        }
        let mut op = match forced {
            Some((k, p, _)) if p == i => OPS[k],
            _ => *rng.pick(OPS),
        };
        // VERIF_NO_QUARANTINE: triage aid used to (re)create the pinned witnesses of the quarantined operations
        while QUARANTINED_OPS.contains(&op.0) && std::env::var("VERIF_NO_QUARANTINE").is_err() {
            op = *rng.pick(OPS);
        }
        match op.0 {
            "add_new_layer" | "duplicate_layer" | "paste_clipboard_data" | "add_floating_layer" => layers += 1,
            "remove_layer" | "merge_layer_down" | "anchor_layer" => layers = (layers - 1).max(1),
            _ => {}
        }
        if matches!(op.0, "stamp_layer_down" | "merge_layer_down" | "anchor_layer") && layers > 1 && !rng.chance(1, 10) {
            t.events.push(Ev::Op {
                name: "set_current_layer".into(),
                args: vec![rng.range(1, layers - 1)],
                hex: String::new(),
            });
        }
        let hex = if op.0 == "paste_clipboard_data" && rng.chance(1, 8) { to_hex(&[0, 1, 2]) } else { String::new() };
        t.events.push(Ev::Op {
            name: op.0.into(),
            args: gen_args(rng, op.0, w, h, layers),
            hex,
        });
        pending_undo += 1;
        // the second actor: undo j steps, redo i <= j of them, or undo and then edit
        if rng.chance(1, 4) {
            let j = 1 + rng.usize(pending_undo.min(4));
            for _ in 0..j {
                // the user may have selected another layer (or moved the caret) before pressing undo: an undo
                // record has to carry what it needs, not read it from the current selection
                if rng.chance(1, 3) {
                    let s = if rng.chance(2, 3) { "set_current_layer" } else { STEER[rng.usize(STEER.len())].0 };
                    t.events.push(Ev::Op {
                        name: s.into(),
                        args: gen_args(rng, s, w, h, layers),
                        hex: String::new(),
                    });
                }
                t.events.push(Ev::Undo);
            }
            let redo = rng.usize(j + 1);
            for _ in 0..redo {
                t.events.push(Ev::Redo);
            }
            pending_undo = pending_undo - j + redo;
        }
    }
    t.labels.push(format!("layers={}", 1 + extra));
    t
}
