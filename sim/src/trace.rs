//! Traces are the replay files: scenario + configuration + the effective events that were applied
//! to the real code. Executing a trace never consults the PRNG.

use serde::{Deserialize, Serialize};
use std::collections::BTreeMap;

fn is_zero(v: &u64) -> bool {
    *v == 0
}
fn is_false(v: &bool) -> bool {
    !*v
}

#[derive(Serialize, Deserialize, Clone, Debug, Default, PartialEq)]
pub struct Cfg {
    /// terminal sessions: emulation name
    #[serde(default, skip_serializing_if = "String::is_empty")]
    pub emu: String,
    #[serde(default, skip_serializing_if = "String::is_empty")]
    pub music: String,
    #[serde(default)]
    pub w: i32,
    #[serde(default)]
    pub h: i32,
    /// evaluate the (expensive) whole-buffer monitors every k-th byte
    #[serde(default, skip_serializing_if = "is_zero")]
    pub monitor_every: u64,
    /// step fuel per event (0 = harness default)
    #[serde(default, skip_serializing_if = "is_zero")]
    pub fuel: u64,
    /// step fuel for one decode thread (0 = harness default)
    #[serde(default, skip_serializing_if = "is_zero")]
    pub decode_fuel: u64,
    /// live-heap budget in MiB for this scenario (0 = harness default)
    #[serde(default, skip_serializing_if = "is_zero")]
    pub mem_mib: u64,
    /// virtual clock start, unix milliseconds
    #[serde(default)]
    pub clock_ms: i64,
    /// the UI does not poll for decodes unless the trace says so
    #[serde(default, skip_serializing_if = "is_false")]
    pub bs_is_ctrl: bool,
    /// terminal sessions: the buffer starts with all its rows allocated (`Buffer::create`) instead of lazily
    #[serde(default, skip_serializing_if = "is_false")]
    pub prefilled: bool,
    /// terminal sessions: the buffer is a viewer's (not a terminal buffer: no scrollback viewport)
    #[serde(default, skip_serializing_if = "is_false")]
    pub viewer: bool,
    /// edit / palette scenarios: document recipe
    #[serde(default, skip_serializing_if = "Vec::is_empty")]
    pub doc: Vec<i64>,
    /// files in the RIP cache directory: name -> hex content ("" + dir flag in name suffix '/')
    #[serde(default, skip_serializing_if = "BTreeMap::is_empty")]
    pub files: BTreeMap<String, String>,
    /// file mtimes relative to the virtual clock start, seconds
    #[serde(default, skip_serializing_if = "BTreeMap::is_empty")]
    pub mtimes: BTreeMap<String, i64>,
}

#[derive(Serialize, Deserialize, Clone, Debug, PartialEq)]
#[serde(tag = "ev", rename_all = "snake_case")]
pub enum Ev {
    /// bytes delivered to the terminal, one `print_char` per byte
    Rx { hex: String },
    /// characters (not bytes) delivered to the terminal: what a front end that decodes UTF-8 itself hands over;
    /// code points that are not scalar values are skipped
    RxWide { cps: Vec<u32> },
    /// line fault: the terminal's own replies (SendString) so far are fed back into its input
    Loopback,
    /// let decode thread `ticket` run to completion
    Release { ticket: usize },
    /// UI poll: `Buffer::update_sixel_threads`
    Poll,
    /// UI: `BufferParser::get_next_action`
    NextAction,
    /// UI: `BufferParser::get_picture_data`
    Picture,
    /// virtual clock jump (may be negative)
    Clock { advance_ms: i64 },
    /// hand stored bytes to a loader entry point
    Load { entry: String, name: String, hex: String },
    /// real-file-system leg of `Buffer::load_buffer`
    Fs { kind: String },
    /// editing / palette operation
    Op {
        name: String,
        #[serde(default, skip_serializing_if = "Vec::is_empty")]
        args: Vec<i64>,
        #[serde(default, skip_serializing_if = "String::is_empty")]
        hex: String,
    },
    Undo,
    Redo,
}

#[derive(Serialize, Deserialize, Clone, Debug, PartialEq)]
pub struct Trace {
    pub property: String,
    pub scenario: String,
    #[serde(default)]
    pub cfg: Cfg,
    pub events: Vec<Ev>,
    /// fault annotations: for the reader and the statistics, not needed to re-execute
    #[serde(default, skip_serializing_if = "Vec::is_empty")]
    pub faults: Vec<String>,
    /// generator-side labels used for reach statistics (schedule string, workload shape...)
    #[serde(default, skip_serializing_if = "Vec::is_empty")]
    pub labels: Vec<String>,
    /// where this trace came from
    #[serde(default, skip_serializing_if = "String::is_empty")]
    pub origin: String,
}

impl Trace {
    pub fn new(property: &str, scenario: &str) -> Self {
        Trace {
            property: property.to_string(),
            scenario: scenario.to_string(),
            cfg: Cfg::default(),
            events: Vec::new(),
            faults: Vec::new(),
            labels: Vec::new(),
            origin: String::new(),
        }
    }

    pub fn rx(&mut self, bytes: &[u8]) {
        if bytes.is_empty() {
            return;
        }
        if let Some(Ev::Rx { hex }) = self.events.last_mut() {
            hex.push_str(&to_hex(bytes));
        } else {
            self.events.push(Ev::Rx { hex: to_hex(bytes) });
        }
    }

    pub fn digest(&self) -> u64 {
        crate::rng::fnv(&serde_json::to_string(self).unwrap_or_default())
    }

    pub fn n_bytes(&self) -> usize {
        self.events
            .iter()
            .map(|e| match e {
                Ev::Rx { hex } | Ev::Load { hex, .. } | Ev::Op { hex, .. } => hex.len() / 2,
                _ => 0,
            })
            .sum()
    }
}

pub fn to_hex(b: &[u8]) -> String {
    const H: &[u8; 16] = b"0123456789abcdef";
    let mut s = String::with_capacity(b.len() * 2);
    for x in b {
        s.push(H[(x >> 4) as usize] as char);
        s.push(H[(x & 15) as usize] as char);
    }
    s
}

pub fn from_hex(s: &str) -> Vec<u8> {
    let b = s.as_bytes();
    let mut v = Vec::with_capacity(b.len() / 2);
    let val = |c: u8| -> u8 {
        match c {
            b'0'..=b'9' => c - b'0',
            b'a'..=b'f' => c - b'a' + 10,
            b'A'..=b'F' => c - b'A' + 10,
            _ => 0,
        }
    };
    let mut i = 0;
    while i + 1 < b.len() {
        v.push(val(b[i]) << 4 | val(b[i + 1]));
        i += 2;
    }
    v
}

/// What went wrong, in a form that survives line shifts in the engine.
#[derive(Serialize, Deserialize, Clone, Debug, PartialEq)]
pub struct Violation {
    pub property: String,
    /// e.g. "panic", "abort", "invariant", "poll_blocked", "step_budget", "alloc_budget", "watchdog"
    pub kind: String,
    /// class key: kind + enclosing engine function or invariant name
    pub class: String,
    pub detail: String,
    pub at_event: usize,
}

#[derive(Serialize, Deserialize, Clone, Debug, Default)]
pub struct RunStats {
    pub events: u64,
    pub bytes: u64,
    pub sim_ms: u64,
    /// counters: fault kinds fired, probes, outcome classes
    pub counters: BTreeMap<String, u64>,
    /// maxima (fuel used, heap, depth ...)
    pub maxima: BTreeMap<String, u64>,
    /// hashes of distinct states / interleavings reached, by named measure
    pub sigs: BTreeMap<String, Vec<u64>>,
}

impl RunStats {
    pub fn count(&mut self, k: &str) {
        self.add(k, 1);
    }
    pub fn add(&mut self, k: &str, n: u64) {
        if let Some(v) = self.counters.get_mut(k) {
            *v += n;
        } else {
            self.counters.insert(k.to_string(), n);
        }
    }
    pub fn max(&mut self, k: &str, n: u64) {
        if let Some(v) = self.maxima.get_mut(k) {
            if n > *v {
                *v = n;
            }
        } else {
            self.maxima.insert(k.to_string(), n);
        }
    }
    pub fn sig(&mut self, measure: &str, h: u64) {
        if let Some(v) = self.sigs.get_mut(measure) {
            v.push(h);
        } else {
            self.sigs.insert(measure.to_string(), vec![h]);
        }
    }
}

#[derive(Serialize, Deserialize, Clone, Debug, Default)]
pub struct Outcome {
    pub violation: Option<Violation>,
    /// how the run ended when not by a violation of its own property:
    /// "completed", "panic" (someone else's property), "budget", "op_failed", ...
    pub ended: String,
    pub stats: RunStats,
    /// hash over the event-by-event observation log: two executions of one trace must agree
    pub digest: u64,
}
