//! Per-run scratch directories on the real file system (RIP icon cache, real-fs loader legs).
//! Always outside /repo and /verif, removed when the run ends.

use crate::trace::Trace;
use std::path::{Path, PathBuf};
use std::sync::atomic::{AtomicU64, Ordering};

static N: AtomicU64 = AtomicU64::new(0);

/// One scratch root per check run: the supervisor creates it, hands it to its workers through
/// VERIF_SCRATCH_ROOT and removes it when the command returns (also after worker deaths).
pub fn scratch_root() -> PathBuf {
    if let Ok(r) = std::env::var("VERIF_SCRATCH_ROOT") {
        return PathBuf::from(r);
    }
    let base = std::env::var("VERIF_SCRATCH").map(PathBuf::from).unwrap_or_else(|_| std::env::temp_dir());
    base.join(format!("icy-verif-{}", std::process::id()))
}

pub fn fresh_dir(tag: &str) -> PathBuf {
    let d = scratch_root().join(format!("p{}-{tag}-{}", std::process::id(), N.fetch_add(1, Ordering::Relaxed)));
    let _ = std::fs::create_dir_all(&d);
    d
}

pub fn make_cache_dir(trace: &Trace) -> PathBuf {
    let d = fresh_dir("cache");
    for (name, hex) in &trace.cfg.files {
        if let Some(dirname) = name.strip_suffix('/') {
            let _ = std::fs::create_dir_all(d.join(dirname));
        } else {
            let _ = std::fs::write(d.join(name), crate::trace::from_hex(hex));
        }
    }
    apply_mtimes(trace, &d);
    d
}

fn set_mtime(p: &Path, secs: i64) {
    if let Ok(c) = std::ffi::CString::new(p.to_string_lossy().as_bytes()) {
        let ts = [
            libc::timespec { tv_sec: secs as libc::time_t, tv_nsec: 0 },
            libc::timespec { tv_sec: secs as libc::time_t, tv_nsec: 0 },
        ];
        unsafe {
            libc::utimensat(libc::AT_FDCWD, c.as_ptr(), ts.as_ptr(), 0);
        }
    }
}

/// Every time stamp the engine can read in the cache directory comes from the trace, none from the wall clock.
pub fn apply_mtimes(trace: &Trace, dir: &Path) {
    let base = trace.cfg.clock_ms / 1000;
    for name in trace.cfg.files.keys() {
        let rel = trace.cfg.mtimes.get(name).copied().unwrap_or(0);
        set_mtime(&dir.join(name.trim_end_matches('/')), base + rel);
    }
    set_mtime(dir, base);
}

pub fn cleanup_root() {
    // a worker leaves the shared root to its supervisor
    if std::env::var("VERIF_SCRATCH_ROOT").is_err() {
        let _ = std::fs::remove_dir_all(scratch_root());
    }
}
