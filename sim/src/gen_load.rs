//! Document persistence workload (C02, and the file legs of C03 / C10): base files come from the
//! engine's own writers; a simulated disk damages the stored bytes before the loaders read them back.

use crate::rng::Rng;
use crate::trace::{to_hex, Ev, Trace};
use icy_engine::{
    AttributedChar, BitFont, Buffer, Color, FontGlyph, FontType, IceMode, Layer, Palette, PaletteFormat, Position, SauceData, SauceString, SaveOptions, Size,
    TextAttribute, TextPane, TheDrawFont,
};

pub const EXTS: [&str; 19] = ["ans", "ice", "diz", "icy", "idf", "bin", "xb", "tnd", "pcb", "avt", "asc", "adf", "msg", "an1", "an5", "an9", "seq", "ata", "xyz"];

pub const DISK_FAULTS: [&str; 18] = [
    "short", "torn", "lost_sector", "stale_tail", "bitrot", "overwrite", "misdirected", "dup_sector", "misnamed", "sauce_tail_only", "comnt_cut", "header_extreme",
    "number_extreme", "sauce_field_extreme", "sauce_text_bytes", "tdf_name_bytes", "utf8_char_insert", "tnd_far_jump",
];

/// Faults of the clipboard channel (bytes another process put there), on top of the generic ones.
pub const IPC_FAULTS: [&str; 3] = ["clip_char_value", "clip_header_count", "clip_record_size"];

pub fn gen_doc(rng: &mut Rng, max_w: i32, max_h: i32) -> Buffer {
    let w = match rng.below(6) {
        0 => 1,
        1 => 2,
        2 => 40,
        3 | 4 => 80,
        _ => rng.range(1, max_w as i64) as i32,
    }
    .min(max_w);
    let h = match rng.below(4) {
        0 => 1,
        1 => 25,
        _ => rng.range(1, max_h as i64) as i32,
    }
    .min(max_h);
    let mut buf = Buffer::new((w, h));
    let layers = if rng.chance(1, 3) { 1 + rng.usize(3) } else { 0 };
    for i in 0..layers {
        let lw = rng.range(1, w as i64 + 2) as i32;
        let lh = rng.range(1, h as i64 + 2) as i32;
        let mut l = Layer::new(format!("L{i} \u{e9}\u{4e16}"), (lw, lh));
        l.properties.has_alpha_channel = rng.chance(1, 2);
        l.properties.is_visible = rng.chance(3, 4);
        l.set_offset((rng.range(-3, 5) as i32, rng.range(-3, 5) as i32));
        buf.layers.push(l);
    }
    if rng.chance(1, 3) {
        buf.ice_mode = *rng.pick(&[IceMode::Blink, IceMode::Ice, IceMode::Unlimited]);
    }
    if rng.chance(1, 3) {
        // custom palette
        for i in 0..16 {
            if rng.chance(1, 2) {
                buf.palette.set_color(i, Color::new(rng.byte() & 0xfc, rng.byte() & 0xfc, rng.byte() & 0xfc));
            }
        }
    }
    if rng.chance(1, 6) {
        for _ in 0..rng.usize(20) {
            buf.palette.insert_color_rgb(rng.byte(), rng.byte(), rng.byte());
        }
    }
    if rng.chance(1, 4) {
        if let Ok(f) = BitFont::from_ansi_font_page(1 + rng.usize(40)) {
            buf.set_font(0, f);
        }
    }
    if rng.chance(1, 6) {
        if let Ok(f) = BitFont::from_ansi_font_page(1 + rng.usize(40)) {
            buf.set_font(1, f);
        }
    }
    let nl = buf.layers.len();
    let density = rng.below(4);
    let pal_len = buf.palette.len() as u32;
    for li in 0..nl {
        let (lw, lh) = (buf.layers[li].get_width(), buf.layers[li].get_height());
        let cells = match density {
            0 => 2,
            1 => (lw * lh / 8).max(1),
            _ => lw * lh,
        };
        for _ in 0..cells.min(2000) {
            let x = rng.range(0, (lw - 1).max(0) as i64) as i32;
            let y = rng.range(0, (lh - 1).max(0) as i64) as i32;
            let ch = match rng.below(6) {
                0 => ' ',
                1 => (0x30 + rng.below(0x4e) as u8) as char,
                2 => char::from_u32(0xb0 + rng.below(0x30) as u32).unwrap_or('#'),
                3 => char::from_u32(rng.below(32) as u32).unwrap_or(' '),
                4 => char::from_u32(rng.below(256) as u32).unwrap_or(' '),
                _ => 'A',
            };
            let mut attr = TextAttribute::default();
            attr.set_foreground(rng.below(u64::from(pal_len.min(16))) as u32);
            let bg_max = if rng.chance(1, 2) { 8 } else { 16 };
            attr.set_background(rng.below(u64::from(pal_len.min(bg_max))) as u32);
            if rng.chance(1, 8) {
                attr.set_is_blinking(true);
            }
            if rng.chance(1, 8) {
                attr.set_is_bold(true);
            }
            if rng.chance(1, 12) && buf.has_font(1) {
                attr.set_font_page(1);
            }
            if rng.chance(1, 20) {
                attr.set_foreground(rng.below(u64::from(pal_len)) as u32);
            }
            buf.layers[li].set_char((x, y), AttributedChar::new(ch, attr));
        }
    }
    if rng.chance(1, 2) {
        let mut s = SauceData::default();
        s.title = SauceString::from(&rand_text(rng, 35));
        s.author = SauceString::from(&rand_text(rng, 20));
        s.group = SauceString::from(&rand_text(rng, 20));
        let nc = *rng.pick(&[0usize, 0, 1, 2, 255]);
        for _ in 0..nc {
            s.comments.push(SauceString::from(&rand_text(rng, 64)));
        }
        s.buffer_size = Size::new(w, h);
        s.use_ice = rng.chance(1, 3);
        buf.set_sauce(Some(s), false);
    }
    buf
}

fn rand_text(rng: &mut Rng, max: usize) -> String {
    let n = rng.usize(max + 1);
    (0..n).map(|_| (0x20 + rng.below(0x5f) as u8) as char).collect()
}

pub fn save_options(rng: &mut Rng) -> SaveOptions {
    let mut o = SaveOptions::new();
    o.save_sauce = rng.chance(2, 3);
    o.compress = rng.chance(1, 2);
    o.use_cursor_forward = rng.chance(1, 2);
    o.use_repeat_sequences = rng.chance(1, 2);
    o.preserve_line_length = rng.chance(1, 4);
    o.longer_terminal_output = rng.chance(1, 4);
    o.lossles_output = rng.chance(1, 3);
    o.use_extended_colors = rng.chance(1, 2);
    o
}

/// A base file written by the real writers: (entry point, file name, bytes).
pub fn base_file(rng: &mut Rng) -> (String, String, Vec<u8>) {
    base_file_ext(rng, None)
}

/// Font data with glyph counts at and around the surrogate block and up to 2^17: the glyph number is
/// the glyph's `char`.
pub fn big_font(rng: &mut Rng) -> Vec<u8> {
    let n: usize = *rng.pick(&[0xD7FF, 0xD800, 0xD801, 0xD820, 0xDFFF, 0xE000, 0xE001, 0x1_0000, 0x1_FFFF, 0x2_0000]);
    let h: usize = *rng.pick(&[1, 1, 1, 2]);
    let payload: Vec<u8> = (0..n * h).map(|i| (i as u8).wrapping_mul(37)).collect();
    let mut v = match rng.below(4) {
        0 => vec![0x36, 0x04, *rng.pick(&[0u8, 1, 2]), h as u8],
        1 | 2 => {
            // PSF2; either an honest header or one whose length x charsize is right but whose height
            // makes more glyphs out of the same bytes
            let mut hd = vec![0x72, 0xb5, 0x4a, 0x86];
            let honest = rng.chance(1, 2);
            let (len, cs, hh) = if honest { (n, h, h) } else { (h, n, 1) };
            for f in [0u32, 32, 0, len as u32, cs as u32, hh as u32, 8] {
                hd.extend_from_slice(&f.to_le_bytes());
            }
            hd
        }
        _ => Vec::new(),
    };
    v.extend(payload);
    v
}

/// `force`: an extension of the buffer formats (the document is bent to fit it), or one of
/// "psf" / "tdf" / "pal" / "clip" for the other readers.
pub fn base_file_ext(rng: &mut Rng, force: Option<&str>) -> (String, String, Vec<u8>) {
    let kind = match force {
        None => rng.below(23),
        Some("psf") => 0,
        Some("psf1") => 100,
        Some("tdf") => 2,
        Some("pal") => 4,
        Some("clip") => 6,
        Some(_) => 19,
    };
    match kind {
        100 => {
            // a PSF1 font (the sweeps want one of each header format)
            let f = BitFont::from_ansi_font_page(rng.usize(42)).unwrap_or_default();
            let mut v = vec![0x36, 0x04, 0, f.size.height as u8];
            v.extend(f.convert_to_u8_data());
            ("BitFont::from_bytes".into(), "font.psf".into(), v)
        }
        21 | 22 => {
            // a captured session saved as a file: the loaders run the same parsers a terminal does
            let (emu, ext): (&'static str, &str) = *rng.pick(&[
                ("ansi", "ans"),
                ("ansi", "ans"),
                ("ansi", "ice"),
                ("ansi", "diz"),
                ("ansi", "xyz"),
                ("avatar", "avt"),
                ("pcboard", "pcb"),
                ("ctrla", "msg"),
                ("renegade", "an1"),
                ("petscii", "seq"),
                ("atascii", "ata"),
                ("ascii", "asc"),
            ]);
            let bytes = crate::gen_term::stream_for_file(rng, emu);
            ("Buffer::from_bytes".into(), format!("session.{ext}"), bytes)
        }
        20 => {
            // a text file that announces itself as UTF-8 (byte order mark): the loaders then feed whole characters,
            // not bytes - from the far ends of the planes, and ones whose low 16 bits look like a surrogate
            const CHARS: [u32; 16] = [
                0xE9, 0x2588, 0x263A, 0xFFFD, 0xFFFE, 0xD7FF, 0xE000, 0x1_D800, 0x1_DC00, 0x1_DFFF, 0x1_F600, 0x2_D800, 0xF_D800, 0x10_FFFF, 0x10_DC00, 0x1_0000,
            ];
            let ext = *rng.pick(&["asc", "ans", "avt", "pcb", "msg", "diz", "ice"]);
            let mut s = String::from("\u{feff}");
            for _ in 0..1 + rng.usize(30) {
                match rng.below(6) {
                    0 => s.push_str("Hello "),
                    1 => s.push_str("\r\n"),
                    2 if ext == "ans" || ext == "ice" || ext == "diz" => s.push_str(&format!("\x1b[{};{}H\x1b[1;3{}m", 1 + rng.below(30), 1 + rng.below(90), rng.below(8))),
                    2 => s.push('\t'),
                    _ => {
                        if let Some(c) = char::from_u32(*rng.pick(&CHARS)) {
                            s.push(c);
                        }
                    }
                }
            }
            let mut bytes = s.into_bytes();
            if rng.chance(1, 3) {
                // a multi-byte character torn apart: its lead byte is there, ASCII follows where the
                // continuation bytes should be (what an overwrite inside a character leaves behind)
                let mut at = 3 + rng.usize(bytes.len() - 2);
                while at < bytes.len() && bytes[at] & 0xC0 == 0x80 {
                    at += 1;
                }
                let lead = *rng.pick(&[0xEDu8, 0xED, 0xF4, 0xF5, 0xF7, 0xE0, 0xC0, 0xFF, 0x80]);
                let tail: &[u8] = if rng.chance(1, 2) { b"000 " } else { b"ab\r\n" };
                let mut ins = vec![lead];
                ins.extend(tail);
                bytes.splice(at..at, ins);
            }
            ("Buffer::from_bytes".into(), format!("unicode.{ext}"), bytes)
        }
        0 | 1 => {
            // bitmap fonts
            let f = BitFont::from_ansi_font_page(rng.usize(42)).unwrap_or_default();
            if rng.chance(1, 6) {
                return ("BitFont::from_bytes".into(), "font.psf".into(), big_font(rng));
            }
            if rng.chance(1, 8) {
                // a PSF2 font that is consistent except for one header field
                let mut b = f.to_psf2_bytes().unwrap_or_default();
                if b.len() >= 32 {
                    let field = 2 + rng.usize(6);
                    let v: u32 = *rng.pick(&[0u32, 1, 7, 9, 255, 256, 0x7fff_ffff, 0xffff_ffff]);
                    b[field * 4..field * 4 + 4].copy_from_slice(&v.to_le_bytes());
                }
                return ("BitFont::from_bytes".into(), "font.psf".into(), b);
            }
            let bytes = match rng.below(3) {
                0 => f.to_psf2_bytes().unwrap_or_default(),
                1 => f.convert_to_u8_data(),
                _ => {
                    let mut v = vec![0x36, 0x04, 0, f.size.height as u8];
                    v.extend(f.convert_to_u8_data());
                    v
                }
            };
            ("BitFont::from_bytes".into(), "font.psf".into(), bytes)
        }
        2 | 3 => {
            // TheDraw fonts
            let nf = 1 + rng.usize(3);
            let mut fonts = Vec::new();
            for i in 0..nf {
                let ft = *rng.pick(&[FontType::Outline, FontType::Block, FontType::Color]);
                let mut f = TheDrawFont::new(rand_text(rng, 12), ft, rng.below(41) as i32);
                for _ in 0..rng.usize(20) {
                    let gw = 1 + rng.usize(10);
                    let gh = 1 + rng.usize(6);
                    let mut data = Vec::new();
                    for y in 0..gh {
                        for _ in 0..gw {
                            data.push(0x21 + rng.below(0x5e) as u8);
                            if matches!(ft, FontType::Color) {
                                data.push(rng.byte());
                            }
                        }
                        if y + 1 < gh {
                            data.push(13);
                        }
                    }
                    let ch = (b'!' + rng.below(94) as u8) as char;
                    f.set_glyph(ch, FontGlyph { size: Size::new(gw as i32, gh as i32), data });
                }
                let _ = i;
                fonts.push(f);
            }
            let bytes = if fonts.len() == 1 && rng.chance(1, 2) {
                fonts[0].as_tdf_bytes().unwrap_or_default()
            } else {
                TheDrawFont::create_font_bundle(&fonts).unwrap_or_default()
            };
            ("TheDrawFont::from_tdf_bytes".into(), "font.tdf".into(), bytes)
        }
        4 | 5 => {
            let mut p = if rng.chance(1, 2) { Palette::dos_default() } else { Palette::new() };
            for _ in 0..rng.usize(40) {
                p.insert_color_rgb(rng.byte(), rng.byte(), rng.byte());
            }
            if rng.chance(1, 2) {
                p.title = rand_text(rng, 20);
                p.author = rand_text(rng, 10);
                p.description = rand_text(rng, 30);
            }
            let (fmt, name) = match rng.below(5) {
                0 => (PaletteFormat::Hex, "hex"),
                1 => (PaletteFormat::Pal, "pal"),
                2 => (PaletteFormat::Gpl, "gpl"),
                3 => (PaletteFormat::Txt, "txt"),
                _ => (PaletteFormat::Ice, "ice"),
            };
            let bytes = p.export_palette(&fmt);
            if rng.chance(1, 8) {
                // the sixth format has no writer: hand its reader another format's file, or noise
                let b = if rng.chance(1, 2) { bytes } else { (0..rng.usize(200)).map(|_| rng.byte()).collect() };
                return ("Palette::load_palette:ase".into(), "pal.ase".into(), b);
            }
            (format!("Palette::load_palette:{name}"), format!("pal.{name}"), bytes)
        }
        6 | 7 => {
            // clipboard payload (another process's bytes)
            let mut st = icy_engine::editor::EditState::default();
            let w = 1 + rng.range(0, 12) as i32;
            let h = 1 + rng.range(0, 6) as i32;
            for y in 0..h {
                for x in 0..w {
                    let _ = st.set_char((x, y), AttributedChar::new((b'a' + rng.below(26) as u8) as char, TextAttribute::default()));
                }
            }
            let _ = st.set_selection(icy_engine::Rectangle::from_min_size((0, 0), (w, h)));
            let bytes = st.get_clipboard_data().unwrap_or_default();
            ("Layer::from_clipboard_data".into(), "clipboard".into(), bytes)
        }
        _ => {
            // the extension first, then a document that format can carry: every loader gets its share
            let mut tries = 0;
            loop {
                let ext = match force {
                    Some(e) if tries < 6 => e,
                    _ => *rng.pick(&EXTS[..18]),
                };
                let mut doc = gen_doc(rng, 132, 60);
                conform(rng, &mut doc, ext);
                let opts = save_options(rng);
                if ext == "icy" && doc.font_count() > 1 {
                    // the IcyDraw writer emits FONT chunks in hash-map order: the bytes would not be a
                    // function of the seed. Documents with two fonts are saved in the other formats.
                    doc.remove_font(1);
                    for l in &mut doc.layers {
                        for line in &mut l.lines {
                            for c in &mut line.chars {
                                c.attribute.set_font_page(0);
                            }
                        }
                    }
                }
                let r = std::panic::catch_unwind(std::panic::AssertUnwindSafe(|| doc.to_bytes(ext, &opts)));
                if let Ok(Ok(mut bytes)) = r {
                    if (ext == "ans" || ext == "ice") && rng.chance(1, 6) {
                        // embedded sixel: the loader's drain loop becomes a scheduling point
                        let p = crate::gen_sixel::payload(rng, 40, 3, true);
                        let at = sauce_start(&bytes);
                        let ins = crate::gen_sixel::dcs("", &p.text);
                        bytes.splice(at..at, ins);
                    }
                    return ("Buffer::from_bytes".into(), format!("file.{ext}"), bytes);
                }
                crate::guard::take_panics();
                tries += 1;
                if tries > 6 {
                    return ("Buffer::from_bytes".into(), "file.ans".into(), b"plain\r\n".to_vec());
                }
            }
        }
    }
}

/// Bends a generated document into what the format of `ext` can carry (its writer refuses the rest).
fn conform(rng: &mut Rng, doc: &mut Buffer, ext: &str) {
    let single_font = |doc: &mut Buffer| {
        doc.remove_font(1);
        for l in &mut doc.layers {
            for line in &mut l.lines {
                for c in &mut line.chars {
                    c.attribute.set_font_page(0);
                }
            }
        }
    };
    match ext {
        "idf" | "adf" => {
            doc.ice_mode = IceMode::Ice;
            single_font(doc);
            doc.set_font(0, BitFont::default());
            doc.palette.resize(16);
            if ext == "adf" || rng.chance(1, 2) {
                let h = doc.get_height();
                doc.set_size((80, h));
                doc.layers[0].set_size((80, h));
            }
        }
        "bin" => {
            let (w, h) = (doc.get_width(), doc.get_height());
            let w = ((w + 1) / 2 * 2).max(2);
            doc.set_size((w, h));
            doc.layers[0].set_size((w, h));
        }
        "tnd" => single_font(doc),
        _ => {}
    }
}

/// Offset where the EOF byte + SAUCE tail starts (or the length if there is none).
pub fn sauce_start(b: &[u8]) -> usize {
    if b.len() >= 128 && &b[b.len() - 128..b.len() - 123] == b"SAUCE" {
        let comments = b[b.len() - 128 + 104] as usize;
        let mut start = b.len() - 128;
        if comments > 0 && start >= comments * 64 + 5 {
            start -= comments * 64 + 5;
        }
        if start > 0 && b[start - 1] == 0x1a {
            start -= 1;
        }
        start
    } else {
        b.len()
    }
}

const SECTOR: usize = 64;

/// Applies one disk fault to stored bytes; returns the annotation.
pub fn disk_fault(rng: &mut Rng, kind: &str, name: &mut String, bytes: &mut Vec<u8>, other: &dyn Fn(&mut Rng) -> Vec<u8>) -> String {
    let len = bytes.len();
    match kind {
        "short" => {
            let keep = if rng.chance(1, 3) { rng.usize(len.min(40) + 1) } else { rng.usize(len + 1) };
            bytes.truncate(keep);
            format!("short keep={keep} of={len}")
        }
        "torn" => {
            if len == 0 {
                return "torn noop".into();
            }
            let at = rng.usize(len);
            let end = ((at / SECTOR) + 1) * SECTOR;
            let end = end.min(len);
            let fill = rng.below(4);
            let stale = other(rng);
            for i in at..end {
                bytes[i] = match fill {
                    0 => 0,
                    1 => 0xff,
                    2 => rng.byte(),
                    _ => *stale.get(i).unwrap_or(&0),
                };
            }
            bytes.truncate(end);
            format!("torn at={at} end={end} fill={fill}")
        }
        "lost_sector" => {
            if len == 0 {
                return "lost_sector noop".into();
            }
            let s = rng.usize(len.div_ceil(SECTOR));
            let stale = if rng.chance(1, 2) { other(rng) } else { Vec::new() };
            for i in s * SECTOR..((s + 1) * SECTOR).min(len) {
                bytes[i] = *stale.get(i).unwrap_or(&0);
            }
            format!("lost_sector sector={s}")
        }
        "stale_tail" => {
            let old = other(rng);
            if old.len() > len {
                bytes.extend_from_slice(&old[len..]);
            }
            format!("stale_tail new_len={len} old_len={}", old.len())
        }
        "bitrot" => {
            if len == 0 {
                return "bitrot noop".into();
            }
            let n = 1 + rng.usize(3);
            let mut s = String::from("bitrot");
            for _ in 0..n {
                let at = match rng.below(4) {
                    0 => rng.usize(len.min(48)),
                    1 => len - 1 - rng.usize(len.min(140)),
                    _ => rng.usize(len),
                };
                let bit = rng.below(8);
                bytes[at] ^= 1 << bit;
                s.push_str(&format!(" at={at} bit={bit}"));
            }
            s
        }
        "overwrite" => {
            if len == 0 {
                return "overwrite noop".into();
            }
            let at = rng.usize(len);
            let n = 1 + rng.usize(16);
            let v = if rng.chance(1, 2) { 0 } else { 0xff };
            for i in at..(at + n).min(len) {
                bytes[i] = v;
            }
            format!("overwrite at={at} len={n} val={v}")
        }
        "misdirected" => {
            let sectors = len.div_ceil(SECTOR);
            if sectors < 2 {
                return "misdirected noop".into();
            }
            let a = rng.usize(sectors);
            let b = rng.usize(sectors);
            let src: Vec<u8> = bytes[a * SECTOR..((a + 1) * SECTOR).min(len)].to_vec();
            for (i, v) in src.iter().enumerate() {
                if b * SECTOR + i < len {
                    bytes[b * SECTOR + i] = *v;
                }
            }
            format!("misdirected from={a} to={b}")
        }
        "dup_sector" => {
            let sectors = len.div_ceil(SECTOR);
            if sectors < 1 {
                return "dup_sector noop".into();
            }
            let a = rng.usize(sectors);
            let src: Vec<u8> = bytes[a * SECTOR..((a + 1) * SECTOR).min(len)].to_vec();
            let at = ((a + 1) * SECTOR).min(len);
            bytes.splice(at..at, src);
            format!("dup_sector sector={a}")
        }
        "misnamed" => {
            if rng.chance(1, 4) {
                // odd names: upper case, no stem, trailing dot, double extension, non-ASCII, and names whose
                // bytes are not UTF-8 (written hex:<bytes> in the trace)
                const ODD: [&str; 12] = [
                    "LOGO.ANS",
                    ".ans",
                    "logo.",
                    "logo.tar.xb",
                    "log\u{e9}.\u{e9}\u{e9}\u{e9}",
                    "logo.an\u{a7}",
                    "hex:6c6f676f2ee9e9e9",
                    "hex:4c4f474f2e414ea7",
                    "hex:e9e9e92e616e73",
                    "hex:6c6f676f2eff",
                    "a/b/c.icy",
                    "..",
                ];
                *name = (*rng.pick(&ODD)).to_string();
                return format!("misnamed as={name}");
            }
            let ext = if rng.chance(1, 8) { "" } else { *rng.pick(&EXTS) };
            *name = if ext.is_empty() { "file".to_string() } else { format!("file.{ext}") };
            format!("misnamed as={name}")
        }
        "utf8_char_insert" => {
            // a well-formed multi-byte character in the middle of a text line (a name typed with an accent, a
            // pasted symbol): the file stays valid UTF-8, byte offsets inside the line stop being character offsets
            if len == 0 {
                return "utf8_char_insert noop".into();
            }
            let c = *rng.pick(&["\u{e9}", "\u{20ac}", "\u{1f600}", "\u{df}", "\u{2588}"]);
            // near the start of a line more often than not
            let starts: Vec<usize> = std::iter::once(0).chain(bytes.iter().enumerate().filter(|(_, b)| **b == b'\n').map(|(i, _)| i + 1)).filter(|i| *i <= len).collect();
            let at = if rng.chance(3, 4) { (*rng.pick(&starts) + rng.usize(8)).min(len) } else { rng.usize(len + 1) };
            bytes.splice(at..at, c.bytes());
            format!("utf8_char_insert at={at} char={c}")
        }
        "sauce_tail_only" => {
            if len >= 128 {
                let keep = 128 + rng.usize((len - 128).min(70) + 1);
                *bytes = bytes[len - keep..].to_vec();
                format!("sauce_tail_only keep={keep}")
            } else {
                "sauce_tail_only noop".into()
            }
        }
        "comnt_cut" => {
            let st = sauce_start(bytes);
            if st < len && len - st > 129 {
                let cut = st + 1 + rng.usize(len - st - 129);
                let n = 1 + rng.usize(64);
                let end = (cut + n).min(len - 128);
                bytes.drain(cut..end);
                format!("comnt_cut at={cut} len={}", end - cut)
            } else {
                "comnt_cut noop".into()
            }
        }
        "clip_char_value" => {
            // a 16-bit character field holding a value that is not a scalar value (or a boundary next to one)
            if len < 17 + 14 {
                return "clip_char_value noop".into();
            }
            let cells = (len - 17) / 14;
            let c = rng.usize(cells);
            let v: u16 = *rng.pick(&[0xD7FF, 0xD800, 0xDABC, 0xDBFF, 0xDC00, 0xDEAD, 0xDFFF, 0xE000, 0xFFFF, 0]);
            bytes[17 + c * 14..17 + c * 14 + 2].copy_from_slice(&v.to_le_bytes());
            format!("clip_char_value cell={c} value={v:#x}")
        }
        "clip_header_count" => {
            if len < 17 {
                return "clip_header_count noop".into();
            }
            let which = 9 + 4 * rng.usize(2);
            let v: u32 = *rng.pick(&[0, 1, 2, 255, 65_535, 65_536, 0x7fff_ffff, 0xffff_ffff]);
            bytes[which..which + 4].copy_from_slice(&v.to_le_bytes());
            format!("clip_header_count field_at={which} value={v}")
        }
        "clip_record_size" => {
            // payload from a "different version": every record two bytes longer or shorter
            if len < 17 + 14 {
                return "clip_record_size noop".into();
            }
            let grow = rng.chance(1, 2);
            let mut out = bytes[..17].to_vec();
            for rec in bytes[17..].chunks(14) {
                if grow {
                    out.extend_from_slice(rec);
                    out.extend_from_slice(&[0, 0]);
                } else {
                    out.extend_from_slice(&rec[..rec.len().min(12)]);
                }
            }
            *bytes = out;
            format!("clip_record_size grow={grow}")
        }
        "header_extreme" => {
            // a header field holding an extreme value (C03's "declared sizes")
            if len < 4 {
                return "header_extreme noop".into();
            }
            let at = rng.usize(len.min(64));
            let vals: [&[u8]; 8] = [&[0, 0], &[0xff, 0xff], &[0xff, 0x7f], &[0, 0x80], &[1, 0], &[0xff, 0xff, 0xff, 0x7f], &[0xff, 0xff, 0xff, 0xff], &[0, 0, 0, 0]];
            let v = *rng.pick(&vals);
            for (i, b) in v.iter().enumerate() {
                if at + i < len {
                    bytes[at + i] = *b;
                }
            }
            format!("header_extreme at={at} val={}", to_hex(v))
        }
        "tnd_far_jump" => {
            // a Tundra position record that jumps far away from what has been drawn, optionally in a file whose
            // SAUCE record declares the widest width the engine accepts
            if len < 9 || &bytes[1..9] != b"TUNDRA24" {
                return "tnd_far_jump noop".into();
            }
            let y: u32 = *rng.pick(&[1000u32, 65_533, 65_534, 65_535, 0x7fff_ffff, 0x8000_0000]);
            let x: u32 = *rng.pick(&[0u32, 79, 80, 1_000_000]);
            let mut rec = vec![1u8];
            rec.extend(y.to_be_bytes());
            rec.extend(x.to_be_bytes());
            rec.push(b'A');
            bytes.splice(9..9, rec);
            let wide = rng.chance(1, 2);
            if wide {
                let has = bytes.len() >= 128 && &bytes[bytes.len() - 128..bytes.len() - 123] == b"SAUCE";
                if !has {
                    let n = bytes.len() as u32;
                    bytes.push(0x1a);
                    bytes.extend(b"SAUCE00");
                    bytes.extend(std::iter::repeat(b' ').take(35 + 20 + 20));
                    bytes.extend(b"20240101");
                    bytes.extend(n.to_le_bytes());
                    bytes.extend([1, 8]);
                    bytes.extend([80, 0, 25, 0, 0, 0, 0, 0, 0, 0]);
                    bytes.extend(std::iter::repeat(0).take(22));
                }
                let base = bytes.len() - 128;
                bytes[base + 96] = 0xe8;
                bytes[base + 97] = 0x03;
            }
            format!("tnd_far_jump y={y} x={x} sauce_width_1000={wide}")
        }
        "sauce_text_bytes" => {
            // a text field of the SAUCE record (title, author, group, font name) or a comment line holds bytes
            // outside ASCII at chosen places: a single 0x80, 0xFF, 0x7F, NUL, or nothing but high bytes
            if !(len >= 128 && &bytes[len - 128..len - 123] == b"SAUCE") {
                return "sauce_text_bytes noop".into();
            }
            let base = len - 128;
            const TEXT: [(usize, usize, &str); 4] = [(7, 35, "title"), (42, 20, "author"), (62, 20, "group"), (106, 22, "tinfos")];
            let comments = bytes[base + 104] as usize;
            let (start, width, fname) = if comments > 0 && base >= comments * 64 && rng.chance(1, 3) {
                (base - comments * 64 + 64 * rng.usize(comments), 64, "comment")
            } else {
                let f = *rng.pick(&TEXT);
                (base + f.0, f.1, f.2)
            };
            let style = rng.below(3);
            for i in 0..width {
                bytes[start + i] = match style {
                    0 => b'a' + (i % 26) as u8,
                    1 => 0x20 + rng.below(0x60) as u8,
                    _ => 0x80 + rng.below(0x80) as u8,
                };
            }
            let special = *rng.pick(&[0x80u8, 0x81, 0xff, 0x7f, 0x00, 0xe9, 0x1a]);
            let at = rng.usize(width);
            if style != 2 {
                bytes[start + at] = special;
            }
            format!("sauce_text_bytes field={fname} style={style} special={special:#x} at={at}")
        }
        "tdf_name_bytes" => {
            // the name of the first font of a TheDraw file: full length, with bytes outside ASCII at chosen places
            if len < 37 || &bytes[1..19] != b"TheDraw FONTS file" {
                return "tdf_name_bytes noop".into();
            }
            let n = *rng.pick(&[12u8, 12, 11, 10, 13, 255]);
            bytes[24] = n;
            for i in 0..12 {
                bytes[25 + i] = b'A' + i as u8;
            }
            let k = 1 + rng.usize(3);
            let mut at = Vec::new();
            for _ in 0..k {
                let p = if rng.chance(1, 2) { 9 + rng.usize(3) } else { rng.usize(12) };
                bytes[25 + p] = *rng.pick(&[0x80u8, 0xff, 0xe9, 0xc3, 0xed]);
                at.push(p);
            }
            format!("tdf_name_bytes len={n} at={at:?}")
        }
        "sauce_field_extreme" => {
            // one field of the SAUCE record (appended first if the file has none) holds an extreme value:
            // declared width / height / further type information, data and file type, comment count, flags
            let has = len >= 128 && &bytes[len - 128..len - 123] == b"SAUCE";
            if !has {
                let mut rec = vec![0x1a];
                rec.extend(b"SAUCE00");
                rec.extend(std::iter::repeat(b' ').take(35 + 20 + 20));
                rec.extend(b"20240101");
                rec.extend((len as u32).to_le_bytes());
                rec.extend([1, 1]);
                rec.extend([80, 0, 25, 0, 0, 0, 0, 0, 0, 0]);
                rec.extend(std::iter::repeat(0).take(22));
                bytes.extend(rec);
            }
            let base = bytes.len() - 128;
            // (offset, width) of the numeric fields
            const FIELDS: [(usize, usize, &str); 9] =
                [(96, 2, "tinfo1"), (98, 2, "tinfo2"), (100, 2, "tinfo3"), (102, 2, "tinfo4"), (94, 1, "datatype"), (95, 1, "filetype"), (104, 1, "comments"), (105, 1, "flags"), (90, 4, "filesize")];
            let (off, w, fname) = if rng.chance(1, 2) { FIELDS[rng.usize(2)] } else { *rng.pick(&FIELDS) };
            let mut v: u32 = if rng.chance(1, 5) { 0 } else { *rng.pick(&[0u32, 1, 2, 80, 255, 256, 1000, 1001, 0x7fff, 0x8000, 0xffff, 0xffff_ffff]) };
            if fname == "tinfo2" && v & 0xffff > 1000 && std::env::var("VERIF_NO_QUARANTINE").is_err() {
                // quarantined (known finding, DESIGN 10.9): a declared height above 1000 rows makes the whole
                // declared document the "screen" of erase, scroll and index functions
                v = 1000;
            }
            for i in 0..w {
                bytes[base + off + i] = (v >> (8 * i)) as u8;
            }
            format!("sauce_field_extreme field={fname} val={v} appended={}", !has)
        }
        "number_extreme" => {
            // the text counterpart of header_extreme: one decimal number of the file (a count line of a
            // palette file, a parameter of a control sequence, a SAUCE date) holds an extreme value
            let mut runs: Vec<(usize, usize)> = Vec::new();
            let mut i = 0;
            while i < len.min(8192) {
                if bytes[i].is_ascii_digit() {
                    let s = i;
                    while i < len && bytes[i].is_ascii_digit() {
                        i += 1;
                    }
                    runs.push((s, i - s));
                } else {
                    i += 1;
                }
            }
            if runs.is_empty() {
                return "number_extreme noop".into();
            }
            // half of the time one of the first numbers of the file (counts and sizes stand in front)
            let (s, l) = if rng.chance(1, 2) { runs[rng.usize(runs.len().min(4))] } else { *rng.pick(&runs) };
            const VALS: [&str; 12] = [
                "0",
                "1",
                "255",
                "256",
                "65535",
                "65536",
                "2147483647",
                "2147483648",
                "4294967295",
                "4294967296",
                "9223372036854775807",
                "18446744073709551615",
            ];
            let v = if rng.chance(1, 8) { "99999999999999999999999999" } else { *rng.pick(&VALS) };
            bytes.splice(s..s + l, v.bytes());
            format!("number_extreme at={s} was_len={l} val={v}")
        }
        _ => "none".into(),
    }
}

pub fn gen_load(prop: &'static str, rng: &mut Rng, _run: u64, _thorough: bool) -> Trace {
    let mut t = Trace::new(prop, "load");
    t.cfg.clock_ms = 1_700_000_000_000;
    if rng.chance(1, 40) {
        // real file-system legs of Buffer::load_buffer
        let kind = *rng.pick(&["missing", "is_dir", "empty", "unreadable_name"]);
        t.events.push(Ev::Fs { kind: kind.into() });
        t.faults.push(format!("fs_{kind}"));
        t.labels.push(format!("load_class=fs/{kind}"));
        return t;
    }
    let (entry, mut name, mut bytes) = base_file(rng);
    let base_len = bytes.len();
    let fault_free = rng.chance(1, 6);
    let mut kinds = Vec::new();
    if !fault_free {
        let n = match rng.below(10) {
            0..=6 => 1,
            7 | 8 => 2,
            _ => 3,
        };
        for _ in 0..n {
            let is_buffer = entry == "Buffer::from_bytes";
            let kind = if entry == "Layer::from_clipboard_data" && rng.chance(1, 2) {
                *rng.pick(&IPC_FAULTS)
            } else if entry.starts_with("Palette::") && rng.chance(1, 3) {
                if rng.chance(1, 2) {
                    "number_extreme"
                } else {
                    "utf8_char_insert"
                }
            } else if is_buffer && name.ends_with(".tnd") && rng.chance(1, 3) {
                "tnd_far_jump"
            } else if is_buffer && name.ends_with(".bin") && rng.chance(1, 3) {
                // a .bin file has no header: its geometry is whatever the SAUCE record declares
                "sauce_field_extreme"
            } else {
                *rng.pick(&DISK_FAULTS)
            };
            let other = |r: &mut Rng| -> Vec<u8> {
                if is_buffer {
                    let d = gen_doc(r, 80, 30);
                    let mut ext = *r.pick(&["ans", "xb", "bin", "tnd", "idf", "adf", "icy"]);
                    if ext == "icy" && d.font_count() > 1 {
                        ext = "ans";
                    }
                    d.to_bytes(ext, &SaveOptions::new()).unwrap_or_default()
                } else {
                    (0..r.usize(600)).map(|_| r.byte()).collect()
                }
            };
            if kind == "misnamed" && !is_buffer {
                continue;
            }
            if name.ends_with(".icy") && rng.chance(2, 3) {
                // damage behind the PNG / zlib / base64 framing, where the record parsers are
                if let Some(ann) = crate::icyfault::inner_fault(rng, &mut bytes) {
                    t.faults.push(ann);
                    kinds.push("icy_inner");
                    continue;
                }
            }
            let ann = disk_fault(rng, kind, &mut name, &mut bytes, &other);
            if !ann.ends_with("noop") {
                t.faults.push(ann);
                kinds.push(kind);
            }
        }
    }
    // release schedule for decodes the loader may start: -1 = an idle sleep
    let sched_n = rng.usize(4);
    for _ in 0..sched_n {
        t.cfg.doc.push(if rng.chance(1, 3) { -1 } else { rng.range(0, 2) });
    }
    let ext = name.rsplit_once('.').map_or("none", |x| x.1).to_string();
    let pos_class = if base_len == 0 { "empty" } else { "any" };
    t.labels.push(format!("load_class={entry}/{ext}/{}/{pos_class}", kinds.join("+")));
    t.labels.push(format!("target=load:{entry}/{ext}"));
    t.events.push(Ev::Load {
        entry,
        name,
        hex: to_hex(&bytes),
    });
    let _ = Position::default();
    t
}

// ---------------------------------------------------------------- single-fault enumeration

/// Faults enumerated per base file: every truncation length, every position x {flip bit 0, flip bit 7,
/// 0x00, 0xFF, 0x1A}, every aligned 16-byte run zeroed.
pub const ENUM_QUOTA: u64 = 32_768;
pub const ENUM_MAX_LEN: usize = 5_200;

pub fn enum_space(len: usize) -> u64 {
    (len as u64 + 1) + 5 * len as u64 + (len as u64).div_ceil(16)
}

/// The `f`-th single fault applied to `bytes`; None beyond the space.
pub fn enum_fault(bytes: &mut Vec<u8>, f: u64) -> Option<String> {
    let len = bytes.len() as u64;
    if f <= len {
        bytes.truncate(f as usize);
        return Some(format!("short keep={f} of={len}"));
    }
    let f = f - (len + 1);
    if f < 5 * len {
        let at = (f / 5) as usize;
        let ann = match f % 5 {
            0 => {
                bytes[at] ^= 1;
                "bitrot"
            }
            1 => {
                bytes[at] ^= 0x80;
                "bitrot"
            }
            2 => {
                bytes[at] = 0;
                "overwrite"
            }
            3 => {
                bytes[at] = 0xff;
                "overwrite"
            }
            _ => {
                bytes[at] = 0x1a;
                "overwrite"
            }
        };
        return Some(format!("{ann} at={at} variant={}", f % 5));
    }
    let f = f - 5 * len;
    if f < len.div_ceil(16) {
        let at = (f * 16) as usize;
        for i in at..(at + 16).min(len as usize) {
            bytes[i] = 0;
        }
        return Some(format!("lost_sector at={at} len=16"));
    }
    None
}

/// Enumeration leg of C02: base file `b` (a function of the seed and b only) with its `f`-th single fault.
/// The readers, in the order base files are dealt to them in the sweeps.
pub const SWEEP_KINDS: [&str; 23] = [
    "ans", "ice", "diz", "icy", "idf", "bin", "xb", "tnd", "pcb", "avt", "asc", "adf", "msg", "an1", "an5", "an9", "seq", "ata", "psf", "tdf", "pal", "clip", "psf1",
];

/// Truncation-only sweep: every prefix of a base file (quota = ENUM_MAX_LEN + 1 run indices per file).
pub const TRUNC_QUOTA: u64 = ENUM_MAX_LEN as u64 + 1;

pub fn gen_load_enum(prop: &'static str, seed: u64, b: u64, f: u64, trunc_only: bool) -> Trace {
    let mut t = Trace::new(prop, "load");
    t.cfg.clock_ms = 1_700_000_000_000;
    let mut rng = Rng::for_run(seed, if trunc_only { "C02-trunc-base" } else { "C02-base" }, b);
    let kind = SWEEP_KINDS[(b % SWEEP_KINDS.len() as u64) as usize];
    let mut tries = 0;
    let (entry, name, mut bytes) = loop {
        let x = base_file_ext(&mut rng, Some(kind));
        if x.2.len() <= ENUM_MAX_LEN || tries > 20 {
            break x;
        }
        tries += 1;
    };
    // The Tundra writer emits a position record only for long blank runs, so most base files hold none and no
    // prefix ends inside one (C02-11A was caught by 1-4 runs per batch only). Every Tundra base file of the
    // truncation sweep gets a near one in front, so that each cut point inside the 9-byte record is a run.
    if trunc_only && kind == "tnd" && bytes.len() >= 9 && &bytes[1..9] == b"TUNDRA24" {
        let y = rng.below(4) as u32;
        let x = rng.below(12) as u32;
        let mut rec = vec![1u8];
        rec.extend(y.to_be_bytes());
        rec.extend(x.to_be_bytes());
        rec.push(b'A');
        bytes.splice(9..9, rec);
        t.labels.push(format!("tnd_near_jump y={y} x={x}"));
    }
    bytes.truncate(ENUM_MAX_LEN);
    let ext = name.rsplit_once('.').map_or("none", |x| x.1).to_string();
    let fault = if trunc_only {
        if f <= bytes.len() as u64 {
            enum_fault(&mut bytes, f)
        } else {
            None
        }
    } else {
        enum_fault(&mut bytes, f)
    };
    match fault {
        Some(ann) => {
            t.labels.push(format!("load_class={entry}/{ext}/enum"));
            t.labels.push(format!("{}={b}", if trunc_only { "trunc_base" } else { "enum_base" }));
            t.faults.push(ann);
        }
        None => {
            // beyond this base file's single-fault space: nothing to do
            t.labels.push("enum_beyond_space=1".into());
            return t;
        }
    }
    t.labels.push(format!("target=load:{entry}/{ext}"));
    t.events.push(Ev::Load {
        entry,
        name,
        hex: to_hex(&bytes),
    });
    t
}
