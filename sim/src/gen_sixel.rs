//! C14 workload: sixel payloads over the whole sixel alphabet, and schedules over
//! {arrive i, release i, poll}.

use crate::rng::Rng;
use crate::trace::{Ev, Trace};

#[derive(Clone, Copy, Debug, PartialEq)]
pub enum RowShape {
    Equal,
    FirstLongest,
    FirstShortest,
    EmptyRows,
    Random,
}

pub const SHAPES: [RowShape; 5] = [RowShape::Equal, RowShape::FirstLongest, RowShape::FirstShortest, RowShape::EmptyRows, RowShape::Random];

fn data_char(rng: &mut Rng) -> char {
    // bias towards characters that set the lowest and highest pixel rows
    match rng.below(8) {
        0 => '?',
        1 => '~',
        2 => '@',
        3 => '_',
        _ => (b'?' + rng.below(64) as u8) as char,
    }
}

fn color_item(rng: &mut Rng, out: &mut String, allow_bad: bool) {
    let n = match rng.below(6) {
        0 => 0,
        1 => 15,
        2 => 16,
        3 => 255,
        _ => rng.below(24),
    };
    match rng.below(10) {
        0..=5 => out.push_str(&format!("#{n}")),
        6 | 7 => out.push_str(&format!("#{n};2;{};{};{}", rng.below(101), rng.below(101), rng.below(101))),
        8 => out.push_str(&format!("#{n};1;{};{};{}", rng.below(361), rng.below(101), rng.below(101))),
        _ => {
            if allow_bad {
                match rng.below(3) {
                    0 => out.push_str(&format!("#{n};3;1;2;3")),
                    1 => out.push_str(&format!("#{n};2;50")),
                    _ => out.push_str(&format!("#{n};2;1;2;3;4")),
                }
            } else {
                out.push_str(&format!("#{n}"));
            }
        }
    }
}

fn row(rng: &mut Rng, len: usize, out: &mut String) -> usize {
    // returns the extent actually written
    let mut x = 0usize;
    let mut extent = 0usize;
    while x < len {
        if rng.chance(1, 6) {
            let n = 1 + rng.usize((len - x).min(500));
            out.push_str(&format!("!{n}"));
            out.push(data_char(rng));
            x += n;
        } else {
            out.push(data_char(rng));
            x += 1;
        }
        extent = extent.max(x);
        if rng.chance(1, 12) && x < len {
            // overprint pass in another colour
            out.push('$');
            color_item(rng, out, false);
            x = 0;
        }
    }
    extent
}

pub struct Payload {
    pub text: String,
    pub shape: RowShape,
    pub raster: &'static str,
    pub bad: bool,
}

/// One sixel payload (what follows the 'q').
pub fn payload(rng: &mut Rng, max_w: usize, max_rows: usize, allow_bad: bool) -> Payload {
    let shape = *rng.pick(&SHAPES);
    let rows = 1 + rng.usize(max_rows);
    let base = match rng.below(6) {
        0 => 1,
        1 => 8,
        2 => 9,
        3 => 16,
        _ => 1 + rng.usize(max_w),
    }
    .min(max_w)
    .max(1);
    let mut lens = Vec::new();
    for r in 0..rows {
        let l = match shape {
            RowShape::Equal => base,
            RowShape::FirstLongest => {
                if r == 0 {
                    base
                } else {
                    rng.usize(base + 1)
                }
            }
            RowShape::FirstShortest => {
                if r == 0 {
                    1 + rng.usize(base.div_ceil(2))
                } else {
                    base
                }
            }
            RowShape::EmptyRows => {
                if rng.chance(1, 2) {
                    0
                } else {
                    base
                }
            }
            RowShape::Random => rng.usize(max_w + 1),
        };
        lens.push(l);
    }
    let data_w = lens.iter().copied().max().unwrap_or(0);
    let data_h = rows * 6;
    let mut text = String::new();
    // raster attributes
    let raster = match rng.below(10) {
        0..=3 => "none",
        4 => "equal",
        5 => "larger",
        6 => "smaller",
        7 => "height_only",
        8 => "scale_only",
        _ => "zero",
    };
    let rs: String = match raster {
        "equal" => format!("\"1;1;{};{}", data_w.max(1), data_h),
        "larger" => format!("\"1;1;{};{}", data_w + 1 + rng.usize(40), data_h + 1 + rng.usize(20)),
        "smaller" => format!("\"1;1;{};{}", (data_w / 2).max(1), (data_h / 2).max(1)),
        "height_only" => format!("\"1;1;{}", 1 + rng.usize(data_h + 6)),
        "scale_only" => format!("\"{};{}", 1 + rng.below(3), 1 + rng.below(3)),
        "zero" => (if rng.chance(1, 2) { "\"1;1;0;0" } else { "\"1;1;5;0" }).to_string(),
        _ => String::new(),
    };
    // where the raster attribute stands: normally in front of the data, but nothing stops a sender from
    // putting it between two rows, after the last row, or both in front and at the end
    let place = if rs.is_empty() || rng.chance(3, 4) { 0 } else { 1 + rng.below(3) };
    if place == 0 || place == 3 {
        text.push_str(&rs);
    }
    let mid_row = if place == 2 { rng.usize(rows) } else { usize::MAX };
    if rng.chance(2, 3) {
        color_item(rng, &mut text, false);
    }
    let mut bad = false;
    for (i, l) in lens.iter().enumerate() {
        if i > 0 {
            text.push('-');
        }
        if i == mid_row {
            text.push_str(&rs);
        }
        if rng.chance(1, 4) {
            color_item(rng, &mut text, false);
        }
        row(rng, *l, &mut text);
        if rng.chance(1, 10) {
            text.push('$');
        }
    }
    if place == 1 || place == 3 {
        text.push_str(&rs);
    }
    if allow_bad && rng.chance(1, 8) {
        bad = true;
        // a decode that fails: invalid sixel character or bad colour record somewhere in the data
        let at = rng.usize(text.len() + 1);
        let mut ins = String::new();
        match rng.below(3) {
            0 => ins.push('%'),
            1 => ins.push_str("#1;2;3~"),
            _ => ins.push_str("#1;7;1;1;1~"),
        }
        // keep insertion on a char boundary (payload is ASCII)
        text.insert_str(at, &ins);
    }
    Payload { text, shape, raster, bad }
}

pub fn dcs(params: &str, payload: &str) -> Vec<u8> {
    let mut v = Vec::new();
    v.extend_from_slice(b"\x1bP");
    v.extend_from_slice(params.as_bytes());
    v.push(b'q');
    v.extend_from_slice(payload.as_bytes());
    v.extend_from_slice(b"\x1b\\");
    v
}

/// All orderings of A0<A1<..  with each R_i after A_i, as sequences of (is_release, index).
pub fn orderings(k: usize) -> Vec<Vec<(bool, usize)>> {
    fn rec(k: usize, next_a: usize, pending: &mut Vec<usize>, cur: &mut Vec<(bool, usize)>, out: &mut Vec<Vec<(bool, usize)>>) {
        if next_a == k && pending.is_empty() {
            out.push(cur.clone());
            return;
        }
        if next_a < k {
            cur.push((false, next_a));
            pending.push(next_a);
            rec(k, next_a + 1, pending, cur, out);
            pending.pop();
            cur.pop();
        }
        for i in 0..pending.len() {
            let t = pending.remove(i);
            cur.push((true, t));
            rec(k, next_a, pending, cur, out);
            cur.pop();
            pending.insert(i, t);
        }
    }
    let mut out = Vec::new();
    rec(k, 0, &mut Vec::new(), &mut Vec::new(), &mut out);
    out
}

/// Size of the canonical schedule space for k images with at most two polls per gap.
pub fn canonical_space(k: usize) -> u64 {
    orderings_cached(k).len() as u64 * 3u64.pow(2 * k as u32 + 1)
}

/// Images in flight in the complete sweep: 3 in the quick tier, 4 (the property's bound; 2 066 715 more
/// schedules) in the thorough tier.
pub fn canonical_kmax(thorough: bool) -> usize {
    if thorough {
        4
    } else {
        3
    }
}

pub fn canonical_total(thorough: bool) -> u64 {
    (1..=canonical_kmax(thorough)).map(canonical_space).sum()
}

fn orderings_cached(k: usize) -> &'static Vec<Vec<(bool, usize)>> {
    static CACHE: std::sync::OnceLock<Vec<Vec<Vec<(bool, usize)>>>> = std::sync::OnceLock::new();
    &CACHE.get_or_init(|| (0..=4).map(orderings).collect())[k.min(4)]
}

/// The `idx`-th canonical schedule (k <= kmax, <= 2 polls per gap): (k, ordering, polls per gap).
pub fn canonical(idx: u64, thorough: bool) -> (usize, Vec<(bool, usize)>, Vec<u8>) {
    let mut idx = idx;
    for k in 1..=canonical_kmax(thorough) {
        let sp = canonical_space(k);
        if idx < sp {
            let ords = orderings_cached(k);
            let gaps = 2 * k + 1;
            let per = 3u64.pow(gaps as u32);
            let o = (idx / per) as usize;
            let mut p = idx % per;
            let mut polls = Vec::new();
            for _ in 0..gaps {
                polls.push((p % 3) as u8);
                p /= 3;
            }
            return (k, ords[o].clone(), polls);
        }
        idx -= sp;
    }
    (1, vec![(false, 0), (true, 0)], vec![0, 0, 0])
}

pub fn gen_c14(rng: &mut Rng, run: u64, thorough: bool) -> Trace {
    let mut t = Trace::new("C14", "term");
    t.cfg.emu = "ansi".into();
    t.cfg.w = 80;
    t.cfg.h = 25;
    t.cfg.clock_ms = 1_700_000_000_000;

    // schedule
    let (k, ordering, polls): (usize, Vec<(bool, usize)>, Vec<u8>) = if run < canonical_total(thorough) {
        let (k, o, p) = canonical(run, thorough);
        t.labels.push("sched_kind=canonical".into());
        (k, o, p)
    } else {
        let kmax = if thorough { 8 } else { 4 };
        let k = 1 + rng.usize(kmax);
        // random linear extension
        let mut ord = Vec::new();
        let mut next_a = 0;
        let mut pending: Vec<usize> = Vec::new();
        while next_a < k || !pending.is_empty() {
            let arrive = next_a < k && (pending.is_empty() || rng.chance(1, 2));
            if arrive {
                ord.push((false, next_a));
                pending.push(next_a);
                next_a += 1;
            } else {
                let i = rng.usize(pending.len());
                ord.push((true, pending.remove(i)));
            }
        }
        let polls = (0..=ord.len()).map(|_| if rng.chance(1, 2) { 0 } else { rng.below(4) as u8 }).collect();
        t.labels.push("sched_kind=random".into());
        (k, ord, polls)
    };

    // image geometry: a few anchor positions so that images are disjoint, identical, nested or partially overlapping
    let anchors: [(i32, i32); 6] = [(1, 1), (1, 1), (2, 2), (1, 9), (3, 1), (1, 2)];
    let mut images = Vec::new();
    let mut shape_label = String::new();
    let mut pos_label = String::new();
    for _ in 0..k {
        let (row, col) = *rng.pick(&anchors);
        let (mw, mr) = match rng.below(4) {
            0 => (8, 1),
            1 => (24, 3),
            2 => (64, 6),
            _ => (if thorough { 512 } else { 200 }, 12),
        };
        let p = payload(rng, mw, mr, true);
        shape_label.push_str(&format!("{:?}/{}/{} ", p.shape, p.raster, if p.bad { "bad" } else { "ok" }));
        pos_label.push_str(&format!("{row},{col} "));
        let params = match rng.below(5) {
            0 => "0;1;0",
            1 => "0;0;0",
            2 => "9;1",
            _ => "",
        };
        images.push((row, col, params, p.text));
    }
    t.labels.push(format!("k={k}"));
    t.labels.push(format!("shapes={shape_label}"));
    let order: String = ordering.iter().filter(|x| x.0).map(|x| x.1.to_string()).collect::<Vec<_>>().join(",");
    t.labels.push(format!("overlap_order={pos_label}|{order}"));

    // beyond the canonical sweep: some sessions belong to a viewer (not a terminal buffer), and some streams
    // carry an erase display between the images, with decodes from before it still in flight
    let mut erase_at: Vec<usize> = Vec::new();
    if run >= canonical_total(thorough) {
        t.cfg.viewer = rng.chance(1, 3);
        if rng.chance(1, 3) {
            for _ in 0..1 + rng.usize(2) {
                erase_at.push(rng.usize(ordering.len() + 1));
            }
            t.labels.push("erase=yes".into());
        }
    }
    for (gap, step) in ordering.iter().enumerate() {
        for _ in 0..polls[gap] {
            t.events.push(Ev::Poll);
        }
        if erase_at.contains(&gap) {
            t.rx(b"\x1b[2J");
        }
        if step.0 {
            t.events.push(Ev::Release { ticket: step.1 });
        } else {
            let (row, col, params, text) = &images[step.1];
            let mut bytes = format!("\x1b[{row};{col}H").into_bytes();
            bytes.extend(dcs(params, text));
            t.rx(&bytes);
        }
    }
    for _ in 0..polls[ordering.len()] {
        t.events.push(Ev::Poll);
    }
    if erase_at.contains(&ordering.len()) {
        t.rx(b"\x1b[2J");
    }
    // bounded liveness: everything is released, k+1 further polls must deliver all
    for _ in 0..=k {
        t.events.push(Ev::Poll);
    }
    t
}

/// Direct calls of `Sixel::parse_from` (rectangularity for all payloads, no schedule).
pub fn gen_c14_direct(rng: &mut Rng, thorough: bool) -> Trace {
    let mut t = Trace::new("C14", "sixel_direct");
    let (mw, mr) = match rng.below(4) {
        0 => (8, 2),
        1 => (40, 4),
        2 => (130, 8),
        _ => (if thorough { 512 } else { 300 }, 12),
    };
    let mut p = payload(rng, mw, mr, true);
    if rng.chance(1, 40) {
        // a tall picture without a declared height: hundreds of bands, around the engine's size limit (2048 rows
        // = band 341) and beyond it
        let bands = *rng.pick(&[100usize, 339, 340, 341, 342, 343, 400, 700]);
        let mut text = String::new();
        if rng.chance(1, 3) {
            text.push_str("#1;2;100;0;0#1");
        }
        text.push_str(&"~".repeat(1 + rng.usize(5)));
        for b in 0..bands {
            text.push('-');
            if b + 1 == bands || rng.chance(1, 50) {
                text.push_str(&"~".repeat(1 + rng.usize(5)));
            }
        }
        p.text = text;
        t.labels.push("shape=tall".into());
    }
    t.labels.push(format!("shapes={:?}/{}/{}", p.shape, p.raster, if p.bad { "bad" } else { "ok" }));
    t.events.push(Ev::Load {
        entry: "Sixel::parse_from".into(),
        name: String::new(),
        hex: crate::trace::to_hex(p.text.as_bytes()),
    });
    t
}

/// Loader leg: the same payloads inside an ANSI file; the loader's drain loop (virtual sleeps) is the
/// scheduling point, `cfg.doc` the release schedule.
pub fn gen_c14_load(rng: &mut Rng, thorough: bool) -> Trace {
    let mut t = Trace::new("C14", "load");
    t.cfg.clock_ms = 1_700_000_000_000;
    let k = 2 + rng.usize(if thorough { 4 } else { 3 });
    let anchors: [(i32, i32); 5] = [(1, 1), (1, 1), (2, 2), (1, 9), (3, 1)];
    let mut bytes = Vec::new();
    for _ in 0..k {
        let (row, col) = *rng.pick(&anchors);
        let (mw, mr) = match rng.below(3) {
            0 => (8, 1),
            1 => (24, 3),
            _ => (120, 6),
        };
        let bad = rng.chance(1, 6);
        let p = payload(rng, mw, mr, bad);
        bytes.extend(format!("\x1b[{row};{col}H").into_bytes());
        bytes.extend(dcs("", &p.text));
    }
    // schedule: any order of the tickets, idle sleeps in between, possibly incomplete
    let mut order: Vec<i64> = (0..k as i64).collect();
    rng.shuffle(&mut order);
    let keep = rng.usize(k + 1);
    for (i, o) in order.into_iter().enumerate() {
        if i >= keep && rng.chance(1, 2) {
            break;
        }
        if rng.chance(1, 4) {
            t.cfg.doc.push(-1);
        }
        if rng.chance(1, 12) {
            // a decode that takes long: many polls of the drain loop find nothing finished (the sleeps are virtual)
            for _ in 0..*rng.pick(&[19usize, 20, 21, 50, 200]) {
                t.cfg.doc.push(-1);
            }
            t.labels.push("sched_shape=long_idle".into());
        }
        t.cfg.doc.push(o);
    }
    t.labels.push(format!("k={k}"));
    t.labels.push("sched_kind=loader".into());
    t.events.push(Ev::Load {
        entry: "Buffer::from_bytes".into(),
        name: "sixel.ans".into(),
        hex: crate::trace::to_hex(&bytes),
    });
    t
}
