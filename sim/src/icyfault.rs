//! Faults *inside* the framing of an IcyDraw file: the document parts travel as base64 text in
//! zlib-compressed PNG zTXt chunks protected by CRCs, so stored-byte damage almost never reaches the
//! record parsers behind them. This module rewrites a chunk's inner record bytes and re-frames it
//! correctly — what a file written by another tool or another version, or damage that happened before
//! the file was framed, looks like.

use crate::rng::Rng;

fn crc32(data: &[u8]) -> u32 {
    let mut c: u32 = 0xffff_ffff;
    for b in data {
        c ^= u32::from(*b);
        for _ in 0..8 {
            c = if c & 1 != 0 { (c >> 1) ^ 0xedb8_8320 } else { c >> 1 };
        }
    }
    !c
}

fn b64_decode(s: &[u8]) -> Option<Vec<u8>> {
    let val = |c: u8| -> Option<u32> {
        Some(match c {
            b'A'..=b'Z' => u32::from(c - b'A'),
            b'a'..=b'z' => u32::from(c - b'a') + 26,
            b'0'..=b'9' => u32::from(c - b'0') + 52,
            b'+' => 62,
            b'/' => 63,
            _ => return None,
        })
    };
    let mut out = Vec::with_capacity(s.len() / 4 * 3);
    for q in s.chunks(4) {
        if q.len() < 2 {
            return None;
        }
        let pad = q.iter().filter(|c| **c == b'=').count();
        let mut n: u32 = 0;
        for (i, c) in q.iter().enumerate() {
            let v = if *c == b'=' { 0 } else { val(*c)? };
            n |= v << (18 - 6 * i as u32);
        }
        let n = n << (6 * (4 - q.len()) as u32) >> (6 * (4 - q.len()) as u32);
        out.push((n >> 16) as u8);
        if pad < 2 && q.len() > 2 {
            out.push((n >> 8) as u8);
        }
        if pad < 1 && q.len() > 3 {
            out.push(n as u8);
        }
    }
    Some(out)
}

struct Chunk {
    kind: [u8; 4],
    data: Vec<u8>,
}

fn parse(png: &[u8]) -> Option<Vec<Chunk>> {
    if png.len() < 8 || &png[..8] != b"\x89PNG\r\n\x1a\n" {
        return None;
    }
    let mut o = 8;
    let mut v = Vec::new();
    while o + 12 <= png.len() {
        let len = u32::from_be_bytes(png[o..o + 4].try_into().ok()?) as usize;
        if o + 12 + len > png.len() {
            return None;
        }
        let kind: [u8; 4] = png[o + 4..o + 8].try_into().ok()?;
        v.push(Chunk {
            kind,
            data: png[o + 8..o + 8 + len].to_vec(),
        });
        o += 12 + len;
    }
    Some(v)
}

fn serialise(chunks: &[Chunk], tail: &[u8]) -> Vec<u8> {
    let mut out = b"\x89PNG\r\n\x1a\n".to_vec();
    for c in chunks {
        out.extend((c.data.len() as u32).to_be_bytes());
        let mut body = c.kind.to_vec();
        body.extend(&c.data);
        out.extend(&body);
        out.extend(crc32(&body).to_be_bytes());
    }
    out.extend(tail);
    out
}

/// Values at and around the edges of the Unicode scalar value range.
pub const CHAR_EDGES: [u32; 16] = [
    0xD7FF, 0xD800, 0xD801, 0xDBFF, 0xDC00, 0xDFFE, 0xDFFF, 0xE000, 0x10_FFFF, 0x11_0000, 0x11_D800, 0x7fff_ffff, 0x8000_0041, 0x8000_D800, 0xffff_ffff,
    0xFFFE,
];

/// Offsets of the cell records (attribute word first) in a layer record or a layer continuation
/// record, with whether each is in the short form. Records are self-delimiting, so the walk does not
/// need the layer's width.
fn cell_records(keyword: &str, rec: &[u8]) -> Vec<(usize, bool)> {
    let mut o = 0usize;
    if !keyword.contains('~') {
        if rec.len() < 4 {
            return Vec::new();
        }
        let tl = u32::from_le_bytes([rec[0], rec[1], rec[2], rec[3]]) as usize;
        o = 4usize.saturating_add(tl);
        if rec.len() < o.saturating_add(41) || rec[o] == 1 {
            return Vec::new();
        }
        o += 41;
    }
    let mut v = Vec::new();
    while o + 2 <= rec.len() {
        let attr = u16::from_le_bytes([rec[o], rec[o + 1]]);
        if attr == 0xC000 || attr & !0x4000 == 0x8000 {
            o += 2;
            continue;
        }
        let short = attr & 0x4000 != 0;
        let len = if short { 6 } else { 16 };
        if o + len > rec.len() {
            break;
        }
        v.push((o, short));
        o += len;
    }
    v
}

/// Damages the record bytes inside one zTXt chunk of an IcyDraw file. Returns the annotation, or None if
/// the bytes are not such a file.
pub fn inner_fault(rng: &mut Rng, bytes: &mut Vec<u8>) -> Option<String> {
    let chunks = parse(bytes)?;
    let consumed: usize = 8 + chunks.iter().map(|c| 12 + c.data.len()).sum::<usize>();
    let tail = bytes[consumed.min(bytes.len())..].to_vec();
    let mut chunks = chunks;
    let ztxt: Vec<usize> = chunks.iter().enumerate().filter(|(_, c)| &c.kind == b"zTXt").map(|(i, _)| i).collect();
    if ztxt.is_empty() {
        return None;
    }
    // prefer layer chunks: that is where the character fields and titles are
    let layer_idx: Vec<usize> = ztxt.iter().copied().filter(|i| chunks[*i].data.starts_with(b"LAYER_")).collect();
    let idx = if !layer_idx.is_empty() && rng.chance(3, 4) { *rng.pick(&layer_idx) } else { *rng.pick(&ztxt) };
    let data = &chunks[idx].data;
    let nul = data.iter().position(|b| *b == 0)?;
    let keyword = String::from_utf8_lossy(&data[..nul]).to_string();
    let compressed = data.get(nul + 2..)?;
    let text = miniz_oxide::inflate::decompress_to_vec_zlib(compressed).ok()?;
    let mut rec = b64_decode(&text)?;
    let n = rec.len();
    let ann;
    let cells = if keyword.starts_with("LAYER_") && rng.chance(1, 3) { cell_records(&keyword, &rec) } else { Vec::new() };
    if !cells.is_empty() {
        // the character field of one cell record, set to a value at or around the edges of the scalar
        // value range; a short (8-bit) record is first widened to the long form that has a 32-bit field
        let (at, short) = *rng.pick(&cells);
        let v: u32 = *rng.pick(&CHAR_EDGES);
        if short {
            let attr = u16::from_le_bytes([rec[at], rec[at + 1]]) & !0x4000;
            let (ch, fg, bg, fp) = (rec[at + 2], rec[at + 3], rec[at + 4], rec[at + 5]);
            let mut long = attr.to_le_bytes().to_vec();
            long.extend(u32::from(ch).to_le_bytes());
            long.extend(u32::from(fg).to_le_bytes());
            long.extend(u32::from(bg).to_le_bytes());
            long.extend(u16::from(fp).to_le_bytes());
            rec.splice(at..at + 6, long);
        }
        rec[at + 2..at + 6].copy_from_slice(&v.to_le_bytes());
        ann = format!("icy_inner chunk={keyword} kind=cell_char at={at} widened={short} value={v:#x}");
    } else if n == 0 {
        rec.extend([0xff, 0xff, 0xff, 0x7f]);
        ann = format!("icy_inner chunk={keyword} kind=grow");
    } else {
        match rng.below(8) {
            0 => {
                let at = rng.usize(n);
                let bit = rng.below(8);
                rec[at] ^= 1 << bit;
                ann = format!("icy_inner chunk={keyword} kind=bitflip at={at} bit={bit}");
            }
            1 => {
                let keep = rng.usize(n);
                rec.truncate(keep);
                ann = format!("icy_inner chunk={keyword} kind=short keep={keep} of={n}");
            }
            2 | 3 => {
                // a 32-bit field that is not a scalar value / an extreme length
                let at = rng.usize(n);
                let v: u32 = *rng.pick(&[0xD800, 0xDBFF, 0xDC00, 0xDFFF, 0x11_0000, 0x7fff_ffff, 0xffff_ffff, 0]);
                for (i, b) in v.to_le_bytes().iter().enumerate() {
                    if at + i < n {
                        rec[at + i] = *b;
                    }
                }
                ann = format!("icy_inner chunk={keyword} kind=field32 at={at} value={v:#x}");
            }
            4 => {
                // bytes that are not UTF-8 inside the leading length-prefixed string (titles, font names)
                let at = 4 + rng.usize(n.min(16));
                if at < n {
                    rec[at] = *rng.pick(&[0xff, 0xc0, 0x80, 0xed]);
                }
                ann = format!("icy_inner chunk={keyword} kind=string_byte at={at}");
            }
            5 => {
                // the string length prefix itself
                let v: u32 = *rng.pick(&[0, 1, 0xff, 0xffff, 0x7fff_ffff, 0xffff_ffff]);
                for (i, b) in v.to_le_bytes().iter().enumerate() {
                    if i < n {
                        rec[i] = *b;
                    }
                }
                ann = format!("icy_inner chunk={keyword} kind=length_prefix value={v:#x}");
            }
            6 => {
                let at = rng.usize(n);
                let len = 1 + rng.usize(12);
                for i in at..(at + len).min(n) {
                    rec[i] = if rng.chance(1, 2) { 0 } else { 0xff };
                }
                ann = format!("icy_inner chunk={keyword} kind=overwrite at={at} len={len}");
            }
            _ => {
                let at = rng.usize(n);
                let dup: Vec<u8> = rec[at..(at + 16).min(n)].to_vec();
                rec.splice(at..at, dup);
                ann = format!("icy_inner chunk={keyword} kind=dup at={at}");
            }
        }
    }
    let text = crate::gen_term::base64_lite::encode(&rec);
    let mut data = keyword.as_bytes().to_vec();
    data.push(0);
    data.push(0);
    data.extend(miniz_oxide::deflate::compress_to_vec_zlib(text.as_bytes(), 6));
    chunks[idx].data = data;
    *bytes = serialise(&chunks, &tail);
    Some(ann)
}
