//! C16 (first sentence): direct palette histories against a vector model.

use crate::guard;
use crate::rng::Rng;
use crate::trace::{Ev, Outcome, RunStats, Trace, Violation};
use icy_engine::{Color, Palette};
use std::panic::{catch_unwind, AssertUnwindSafe};

fn inv(name: &str, detail: String, at: usize) -> Violation {
    crate::monitors::inv("C16", name, detail, at)
}

fn list(p: &Palette) -> Vec<(u8, u8, u8)> {
    (0..p.len()).map(|i| p.get_rgb(i as u32)).collect()
}

pub fn build(recipe: &[i64]) -> Palette {
    let kind = recipe.first().copied().unwrap_or(1);
    let n = recipe.get(1).copied().unwrap_or(0).clamp(0, 300) as usize;
    let mut rng = Rng::new(recipe.get(2).copied().unwrap_or(7) as u64);
    let mut p = if kind == 0 { Palette::new() } else { Palette::dos_default() };
    if kind == 2 {
        p = Palette::new();
        for _ in 0..n {
            // duplicates on purpose: an existing colour must return its first index
            let c = if rng.chance(1, 6) { (1, 2, 3) } else { (rng.byte(), rng.byte(), rng.byte()) };
            p.push(Color::new(c.0, c.1, c.2));
        }
    }
    p
}

pub fn run_pal(trace: &Trace) -> Outcome {
    let mut stats = RunStats::default();
    let mut digest = 5u64;
    guard::phase(1);
    guard::take_panics();
    guard::mem_begin(256 << 20, 64 << 20);
    let mut pal = build(&trace.cfg.doc);
    let mut violation = None;
    let mut ended = String::from("completed");
    for (ei, ev) in trace.events.iter().enumerate() {
        stats.events += 1;
        let Ev::Op { name, args, .. } = ev else {
            ended = "harness_error:event not valid in a palette history".into();
            break;
        };
        let g = |i: usize| args.get(i).copied().unwrap_or(0);
        let rgb = (g(0) as u8, g(1) as u8, g(2) as u8);
        let before = list(&pal);
        let r = catch_unwind(AssertUnwindSafe(|| -> Option<u32> {
            match name.as_str() {
                "insert_rgb" => Some(pal.insert_color_rgb(rgb.0, rgb.1, rgb.2)),
                "insert" => Some(pal.insert_color(Color::new(rgb.0, rgb.1, rgb.2))),
                "set_rgb" => {
                    pal.set_color_rgb(g(3).clamp(0, 400) as u32, rgb.0, rgb.1, rgb.2);
                    None
                }
                "set" => {
                    pal.set_color(g(3).clamp(0, 400) as u32, Color::new(rgb.0, rgb.1, rgb.2));
                    None
                }
                "push" => {
                    pal.push(Color::new(rgb.0, rgb.1, rgb.2));
                    None
                }
                "resize" => {
                    pal.resize(g(0).clamp(0, 400) as usize);
                    None
                }
                _ => None,
            }
        }));
        let Ok(ret) = r else {
            guard::take_panics();
            stats.count("probe_op_panicked");
            ended = "op_panicked".into();
            break;
        };
        let after = list(&pal);
        digest = digest.wrapping_mul(31).wrapping_add(after.len() as u64).wrapping_add(u64::from(ret.unwrap_or(9999)));
        if let Some(idx) = ret {
            stats.count("inserts");
            let first = before.iter().position(|c| *c == rgb);
            if pal.get_rgb(idx) != rgb {
                violation = Some(inv("insert_resolves_wrong", format!("inserting {rgb:?} returned index {idx}, which resolves to {:?}", pal.get_rgb(idx)), ei));
                break;
            }
            if pal.get_color(idx).get_rgb() != rgb {
                violation = Some(inv("insert_resolves_wrong", format!("inserting {rgb:?} returned index {idx}, whose colour is {:?}", pal.get_color(idx).get_rgb()), ei));
                break;
            }
            if after.len() < before.len() || after[..before.len()] != before[..] {
                let k = before.iter().zip(&after).position(|(a, b)| a != b);
                violation = Some(inv(
                    "insert_changed_existing",
                    format!("inserting {rgb:?} changed an existing index (first difference at {k:?}, length {} -> {})", before.len(), after.len()),
                    ei,
                ));
                break;
            }
            match first {
                Some(j) => {
                    stats.count("probe_insert_existing");
                    if idx as usize != j {
                        violation = Some(inv("insert_existing_new_index", format!("{rgb:?} is already at index {j} but insert returned {idx}"), ei));
                        break;
                    }
                    if after.len() != before.len() {
                        violation = Some(inv("insert_existing_grew", format!("{rgb:?} is already at index {j} but the palette grew to {}", after.len()), ei));
                        break;
                    }
                }
                None => {
                    stats.count("probe_insert_new");
                    if (idx as usize) < before.len() {
                        violation = Some(inv("insert_reused_index", format!("new colour {rgb:?} was given the existing index {idx}"), ei));
                        break;
                    }
                }
            }
        }
        stats.max("palette_len", after.len() as u64);
    }
    stats.sig("history_shape", crate::rng::fnv(&trace.events.iter().map(|e| if let Ev::Op { name, .. } = e { name.chars().next().unwrap_or('?') } else { '?' }).collect::<String>()));
    guard::mem_end();
    guard::phase(0);
    if violation.is_some() {
        ended = "violation".into();
    }
    Outcome {
        violation,
        ended,
        stats,
        digest,
    }
}

pub fn gen_pal(rng: &mut Rng) -> Trace {
    let mut t = Trace::new("C16", "pal");
    t.cfg.doc = vec![rng.range(0, 2), *rng.pick(&[0i64, 1, 15, 16, 17, 255, 256, 300]), rng.range(1, 1_000_000)];
    let n = 1 + rng.usize(30);
    let mut recent: Vec<(i64, i64, i64)> = vec![(1, 2, 3), (0, 0, 0), (170, 170, 170)];
    for _ in 0..n {
        let rgb = if rng.chance(1, 3) {
            *rng.pick(&recent)
        } else {
            let c = (rng.range(0, 255), rng.range(0, 255), rng.range(0, 255));
            recent.push(c);
            c
        };
        let (name, args): (&str, Vec<i64>) = match rng.below(10) {
            0..=4 => ("insert_rgb", vec![rgb.0, rgb.1, rgb.2]),
            5 => ("insert", vec![rgb.0, rgb.1, rgb.2]),
            6 => ("set_rgb", vec![rgb.0, rgb.1, rgb.2, *rng.pick(&[0i64, 1, 15, 16, 17, 100, 300])]),
            7 => ("set", vec![rgb.0, rgb.1, rgb.2, rng.range(0, 40)]),
            8 => ("push", vec![rgb.0, rgb.1, rgb.2]),
            _ => ("resize", vec![*rng.pick(&[0i64, 1, 8, 16, 17, 64, 300])]),
        };
        t.events.push(Ev::Op {
            name: name.into(),
            args,
            hex: String::new(),
        });
    }
    t
}
