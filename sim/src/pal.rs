//! C16: direct palette histories against a vector model (insert / set / push / resize / lookup).
//! The second sentence of the property (export -> import gives the same colours, the 6-bit encoding is
//! idempotent) is a pure function of the palette; it rides along as two more operations of the history
//! generator (no schedule or fault is involved in them, and DESIGN.md says so).

use crate::guard;
use crate::rng::Rng;
use crate::trace::{Ev, Outcome, RunStats, Trace, Violation};
use icy_engine::{Color, Palette, PaletteFormat};
use std::panic::{catch_unwind, AssertUnwindSafe};

fn inv(name: &str, detail: String, at: usize) -> Violation {
    crate::monitors::inv("C16", name, detail, at)
}

fn list(p: &Palette) -> Vec<(u8, u8, u8)> {
    (0..p.len()).map(|i| p.get_rgb(i as u32)).collect()
}

pub fn build(recipe: &[i64]) -> Palette {
    let kind = recipe.first().copied().unwrap_or(1);
    let n = recipe.get(1).copied().unwrap_or(0).clamp(0, 300) as usize;
    let mut rng = Rng::new(recipe.get(2).copied().unwrap_or(7) as u64);
    let mut p = if kind == 0 { Palette::new() } else { Palette::dos_default() };
    if kind == 2 {
        p = Palette::new();
        for _ in 0..n {
            // duplicates on purpose: an existing colour must return its first index
            let c = if rng.chance(1, 6) { (1, 2, 3) } else { (rng.byte(), rng.byte(), rng.byte()) };
            p.push(Color::new(c.0, c.1, c.2));
        }
    }
    p
}

pub fn run_pal(trace: &Trace) -> Outcome {
    let mut stats = RunStats::default();
    let mut digest = 5u64;
    guard::phase(1);
    guard::take_panics();
    guard::mem_begin(256 << 20, 64 << 20);
    let mut pal = build(&trace.cfg.doc);
    let mut violation = None;
    let mut ended = String::from("completed");
    for (ei, ev) in trace.events.iter().enumerate() {
        stats.events += 1;
        let Ev::Op { name, args, .. } = ev else {
            ended = "harness_error:event not valid in a palette history".into();
            break;
        };
        let g = |i: usize| args.get(i).copied().unwrap_or(0);
        let rgb = (g(0) as u8, g(1) as u8, g(2) as u8);
        let before = list(&pal);
        let r = catch_unwind(AssertUnwindSafe(|| -> Option<u32> {
            match name.as_str() {
                "insert_rgb" => Some(pal.insert_color_rgb(rgb.0, rgb.1, rgb.2)),
                "insert" => Some(pal.insert_color(Color::new(rgb.0, rgb.1, rgb.2))),
                "set_rgb" => {
                    pal.set_color_rgb(g(3).clamp(0, 400) as u32, rgb.0, rgb.1, rgb.2);
                    None
                }
                "set" => {
                    let mut c = Color::new(rgb.0, rgb.1, rgb.2);
                    if g(4) != 0 {
                        // a named entry (as palette files and the IcyDraw palette chunk produce them)
                        c.name = Some(format!("named {}", g(4)));
                    }
                    pal.set_color(g(3).clamp(0, 400) as u32, c);
                    None
                }
                "push" => {
                    pal.push(Color::new(rgb.0, rgb.1, rgb.2));
                    None
                }
                "resize" => {
                    pal.resize(g(0).clamp(0, 400) as usize);
                    None
                }
                "roundtrip" | "six_bit" | "six_bit_files" => None,
                _ => None,
            }
        }));
        let Ok(ret) = r else {
            guard::take_panics();
            stats.count("probe_op_panicked");
            ended = "op_panicked".into();
            break;
        };
        let after = list(&pal);
        digest = digest.wrapping_mul(31).wrapping_add(after.len() as u64).wrapping_add(u64::from(ret.unwrap_or(9999)));
        if let Some(idx) = ret {
            stats.count("inserts");
            let first = before.iter().position(|c| *c == rgb);
            if pal.get_rgb(idx) != rgb {
                violation = Some(inv("insert_resolves_wrong", format!("inserting {rgb:?} returned index {idx}, which resolves to {:?}", pal.get_rgb(idx)), ei));
                break;
            }
            if pal.get_color(idx).get_rgb() != rgb {
                violation = Some(inv("insert_resolves_wrong", format!("inserting {rgb:?} returned index {idx}, whose colour is {:?}", pal.get_color(idx).get_rgb()), ei));
                break;
            }
            if after.len() < before.len() || after[..before.len()] != before[..] {
                let k = before.iter().zip(&after).position(|(a, b)| a != b);
                violation = Some(inv(
                    "insert_changed_existing",
                    format!("inserting {rgb:?} changed an existing index (first difference at {k:?}, length {} -> {})", before.len(), after.len()),
                    ei,
                ));
                break;
            }
            match first {
                Some(j) => {
                    stats.count("probe_insert_existing");
                    if idx as usize != j {
                        violation = Some(inv("insert_existing_new_index", format!("{rgb:?} is already at index {j} but insert returned {idx}"), ei));
                        break;
                    }
                    if after.len() != before.len() {
                        violation = Some(inv("insert_existing_grew", format!("{rgb:?} is already at index {j} but the palette grew to {}", after.len()), ei));
                        break;
                    }
                }
                None => {
                    stats.count("probe_insert_new");
                    if (idx as usize) < before.len() {
                        violation = Some(inv("insert_reused_index", format!("new colour {rgb:?} was given the existing index {idx}"), ei));
                        break;
                    }
                }
            }
        }
        // the other operations against the vector model
        match name.as_str() {
            "set_rgb" | "set" => {
                let i = g(3).clamp(0, 400) as usize;
                let want_len = before.len().max(i + 1);
                let mut bad = None;
                if after.len() != want_len {
                    bad = Some(format!("length {} instead of {want_len}", after.len()));
                } else if after[i] != rgb {
                    bad = Some(format!("index {i} resolves to {:?}", after[i]));
                } else if let Some(j) = (0..before.len()).find(|j| *j != i && after[*j] != before[*j]) {
                    bad = Some(format!("index {j} changed from {:?} to {:?}", before[j], after[j]));
                }
                if let Some(b) = bad {
                    violation = Some(inv("set_not_stored", format!("setting index {i} of a {}-colour palette to {rgb:?}: {b}", before.len()), ei));
                    break;
                }
                stats.count("sets_checked");
            }
            "push" => {
                if after.len() != before.len() + 1 || after[..before.len()] != before[..] || after[before.len()] != rgb {
                    violation = Some(inv("push_not_appended", format!("pushing {rgb:?} onto a {}-colour palette gave {} colours, last {:?}", before.len(), after.len(), after.last()), ei));
                    break;
                }
            }
            "resize" => {
                let n = g(0).clamp(0, 400) as usize;
                let keep = n.min(before.len());
                if after.len() != n || after[..keep] != before[..keep] {
                    violation = Some(inv("resize_changed_existing", format!("resizing a {}-colour palette to {n} gave {} colours or changed a kept index", before.len(), after.len()), ei));
                    break;
                }
            }
            "roundtrip" => {
                let (fmt, fname) = match g(0) {
                    0 => (PaletteFormat::Hex, "hex"),
                    1 => (PaletteFormat::Pal, "pal"),
                    2 => (PaletteFormat::Gpl, "gpl"),
                    3 => (PaletteFormat::Txt, "txt"),
                    _ => (PaletteFormat::Ice, "ice"),
                };
                let mut p2 = pal.clone();
                let meta = g(1);
                // plain wording, or wording that happens to contain runs of hexadecimal digits and numbers
                let hexy = meta & 16 != 0;
                p2.title = if meta & 1 == 0 {
                    String::new()
                } else if hexy {
                    "Decade facade 00c0ffee".into()
                } else {
                    "My palette".into()
                };
                p2.author = if meta & 2 == 0 {
                    String::new()
                } else if hexy {
                    "Abe Defaced 20240131".into()
                } else {
                    "Some One".into()
                };
                p2.description = if meta & 4 == 0 {
                    String::new()
                } else if hexy {
                    "beef cafe 123456 ABCDEF 12 34 56".into()
                } else {
                    "sixteen and more colours".into()
                };
                if meta & 8 != 0 && p2.len() > 0 {
                    // optional colour names on a few entries
                    for i in [0usize, p2.len() / 2, p2.len() - 1] {
                        let mut c = p2.get_color(i as u32);
                        c.name = Some(if hexy { format!("facade 112233 {i}") } else { format!("colour {i}") });
                        p2.set_color(i as u32, c);
                    }
                }
                let want = list(&p2);
                if want.len() <= 256 {
                    let r = catch_unwind(AssertUnwindSafe(|| {
                        let bytes = p2.export_palette(&fmt);
                        Palette::load_palette(&fmt, &bytes).map(|p| list(&p)).map_err(|e| e.to_string())
                    }));
                    stats.count("roundtrips_checked");
                    let got = match r {
                        Ok(x) => x,
                        Err(_) => {
                            guard::take_panics();
                            Err("panic".into())
                        }
                    };
                    if got.as_ref() != Ok(&want) {
                        let show = match &got {
                            Ok(v) => format!("{} colours{}", v.len(), v.iter().zip(&want).position(|(a, b)| a != b).map(|k| format!(", first difference at index {k}")).unwrap_or_default()),
                            Err(e) => format!("error: {e}"),
                        };
                        violation = Some(inv(&format!("roundtrip_{fname}"), format!("exporting {} colours (metadata variant {meta}) as {fname} and importing the result gives {show}", want.len()), ei));
                        break;
                    }
                }
            }
            "six_bit_files" => {
                // the same encoding as the three file formats carry it: sixteen six-bit colours, expanded, written by the
                // XBin / IDF / ADF writers and read back, must come back as the same sixteen colours
                let mut r6 = crate::rng::Rng::new(g(0) as u64);
                let raw: Vec<u8> = (0..48).map(|_| r6.below(64) as u8).collect();
                let want = list(&Palette::from_63(&raw));
                for ext in ["adf", "xb", "idf"] {
                    let res = catch_unwind(AssertUnwindSafe(|| -> Option<Vec<(u8, u8, u8)>> {
                        let mut buf = icy_engine::Buffer::new((80, 2));
                        buf.ice_mode = icy_engine::IceMode::Ice;
                        buf.palette = Palette::from_63(&raw);
                        buf.layers[0].set_char((0, 0), icy_engine::AttributedChar::new('A', icy_engine::TextAttribute::default()));
                        let bytes = buf.to_bytes(ext, &icy_engine::SaveOptions::default()).ok()?;
                        let back = icy_engine::Buffer::from_bytes(std::path::Path::new(&format!("p.{ext}")), true, &bytes).ok()?;
                        Some((0..16).map(|i| back.palette.get_rgb(i)).collect())
                    }));
                    match res {
                        Ok(Some(got)) => {
                            stats.count("six_bit_file_cycles");
                            if got != want {
                                let k = got.iter().zip(&want).position(|(a, b)| a != b).unwrap_or(0);
                                violation = Some(inv(
                                    "six_bit_not_idempotent",
                                    format!("sixteen six-bit colours written as .{ext} and read back: index {k} went from {:?} to {:?}", want[k], got[k]),
                                    ei,
                                ));
                                break;
                            }
                        }
                        Ok(None) => stats.count("six_bit_file_cycle_refused"),
                        Err(_) => {
                            guard::take_panics();
                            stats.count("six_bit_file_cycle_panicked");
                        }
                    }
                }
                if violation.is_some() {
                    break;
                }
            }
            "six_bit" => {
                // all 64^3 six-bit colours: expanding and reducing again is the identity, so expanding twice changes nothing
                let mut raw = Vec::with_capacity(64 * 64 * 64 * 3);
                for r in 0..64u8 {
                    for gg in 0..64u8 {
                        for b in 0..64u8 {
                            raw.extend([r, gg, b]);
                        }
                    }
                }
                let p1 = Palette::from_63(&raw);
                let back = p1.as_vec_63();
                stats.count("six_bit_sweeps");
                if back != raw {
                    let k = back.iter().zip(&raw).position(|(a, b)| a != b).unwrap_or(0) / 3;
                    violation = Some(inv("six_bit_not_idempotent", format!("six-bit colour {:?} comes back as {:?}", &raw[k * 3..k * 3 + 3], &back[k * 3..k * 3 + 3]), ei));
                    break;
                }
                if list(&Palette::from_63(&back)) != list(&p1) {
                    violation = Some(inv("six_bit_not_idempotent", "expanding the reduced colours gives a different palette".into(), ei));
                    break;
                }
            }
            _ => {}
        }
        stats.max("palette_len", after.len() as u64);
    }
    stats.sig("history_shape", crate::rng::fnv(&trace.events.iter().map(|e| if let Ev::Op { name, .. } = e { name.chars().next().unwrap_or('?') } else { '?' }).collect::<String>()));
    guard::mem_end();
    guard::phase(0);
    if violation.is_some() {
        ended = "violation".into();
    }
    Outcome {
        violation,
        ended,
        stats,
        digest,
    }
}

pub fn gen_pal(rng: &mut Rng) -> Trace {
    let mut t = Trace::new("C16", "pal");
    t.cfg.doc = vec![rng.range(0, 2), *rng.pick(&[0i64, 1, 15, 16, 17, 255, 256, 300]), rng.range(1, 1_000_000)];
    let n = 1 + rng.usize(30);
    let mut recent: Vec<(i64, i64, i64)> = vec![(1, 2, 3), (0, 0, 0), (170, 170, 170)];
    for _ in 0..n {
        let rgb = if rng.chance(1, 3) {
            *rng.pick(&recent)
        } else {
            let c = (rng.range(0, 255), rng.range(0, 255), rng.range(0, 255));
            recent.push(c);
            c
        };
        let (name, args): (&str, Vec<i64>) = match rng.below(12) {
            10 => ("roundtrip", vec![rng.range(0, 4), rng.range(0, 31)]),
            11 if rng.chance(1, 40) => ("six_bit", vec![]),
            11 if rng.chance(1, 6) => ("six_bit_files", vec![rng.range(1, 1_000_000)]),
            11 => ("roundtrip", vec![rng.range(0, 4), *rng.pick(&[0i64, 15, 31])]),
            0..=4 => ("insert_rgb", vec![rgb.0, rgb.1, rgb.2]),
            5 => ("insert", vec![rgb.0, rgb.1, rgb.2]),
            6 => ("set_rgb", vec![rgb.0, rgb.1, rgb.2, *rng.pick(&[0i64, 1, 15, 16, 17, 100, 300])]),
            7 => ("set", vec![rgb.0, rgb.1, rgb.2, rng.range(0, 40), if rng.chance(1, 2) { rng.range(1, 9) } else { 0 }]),
            8 => ("push", vec![rgb.0, rgb.1, rgb.2]),
            _ => ("resize", vec![*rng.pick(&[0i64, 1, 8, 16, 17, 64, 300])]),
        };
        t.events.push(Ev::Op {
            name: name.into(),
            args,
            hex: String::new(),
        });
    }
    t
}
