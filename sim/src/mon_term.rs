//! Monitors for the text-terminal properties (C01/C03 reach, C09, C10, C16, C20).

use crate::monitors::{inv, Monitor};
use crate::term::{ByteResult, EvResult, ParserBox, Session};
use crate::trace::{RunStats, Trace, Violation};
use icy_engine::{AutoWrapMode, Buffer, OriginMode, TextPane};
use std::collections::HashSet;

fn state_sig(s: &Session, emu_h: u64) -> u64 {
    let b = &s.buf;
    let ts = &b.terminal_state;
    let p = s.caret.get_position();
    let first = b.get_first_visible_line();
    let (w, h) = (ts.get_width().max(1), ts.get_height().max(1));
    let zx = if p.x <= 0 {
        0
    } else if p.x >= w - 1 {
        2
    } else {
        1
    };
    let ry = p.y - first;
    let zy = if ry <= 0 {
        0
    } else if ry >= h - 1 {
        2
    } else {
        1
    };
    let inflight = s.queue.len().min(2) as u64;
    let mut v = emu_h;
    v = v.wrapping_mul(31).wrapping_add(zx);
    v = v.wrapping_mul(31).wrapping_add(zy);
    v = v.wrapping_mul(31).wrapping_add(u64::from(first > 0));
    v = v.wrapping_mul(31).wrapping_add(u64::from(ts.get_margins_top_bottom().is_some()));
    v = v.wrapping_mul(31).wrapping_add(u64::from(ts.get_margins_left_right().is_some()));
    v = v.wrapping_mul(31).wrapping_add(u64::from(ts.origin_mode == OriginMode::WithinMargins));
    v = v.wrapping_mul(31).wrapping_add(u64::from(ts.auto_wrap_mode == AutoWrapMode::AutoWrap));
    v = v.wrapping_mul(31).wrapping_add(u64::from(s.caret.insert_mode));
    v = v.wrapping_mul(31).wrapping_add(inflight);
    v
}

/// Reach statistics shared by all terminal monitors.
pub struct Reach {
    emu_h: u64,
    seen: HashSet<u64>,
    errs: HashSet<u64>,
}

impl Reach {
    pub fn new(t: &Trace) -> Self {
        Reach {
            emu_h: crate::rng::fnv(&t.cfg.emu),
            seen: HashSet::new(),
            errs: HashSet::new(),
        }
    }
    pub fn observe(&mut self, s: &Session, r: &EvResult, stats: &mut RunStats) {
        if let EvResult::Byte(b, br) = r {
            let mut sig = state_sig(s, self.emu_h);
            if self.seen.insert(sig) {
                stats.sig("state", sig);
            }
            // state x input class transitions
            let class = match *b {
                0x1b => 0,
                0..=0x1f => 1,
                b'0'..=b'9' | b';' => 2,
                0x40..=0x7e => 3,
                0x80..=0xff => 4,
                _ => 5,
            };
            sig = sig.wrapping_mul(131).wrapping_add(class).wrapping_add(if matches!(br, ByteResult::Err(_)) { 77 } else { 0 });
            if self.seen.insert(sig ^ 0x5555) {
                stats.sig("transition", sig ^ 0x5555);
            }
            if let ByteResult::Err(m) = br {
                let h = crate::rng::fnv(crate::term::err_class(m));
                if self.errs.insert(h) {
                    stats.sig("err_variant", h);
                }
            }
            if s.buf.get_first_visible_line() > 0 {
                stats.count("probe_byte_with_scrollback_present");
            }
        }
    }
}

pub struct ReachMonitor {
    reach: Reach,
}
impl ReachMonitor {
    pub fn new(t: &Trace) -> Self {
        ReachMonitor { reach: Reach::new(t) }
    }
}
impl Monitor for ReachMonitor {
    fn after(&mut self, s: &Session, _at: usize, r: &EvResult, stats: &mut RunStats) -> Option<Violation> {
        self.reach.observe(s, r, stats);
        None
    }
}

// ------------------------------------------------------------------ C09

pub struct CaretMonitor {
    reach: Reach,
    fixed_grid: bool,
    init_size: (i32, i32),
    armed: bool,
}

impl CaretMonitor {
    pub fn new(t: &Trace, s: &Session) -> Self {
        CaretMonitor {
            reach: Reach::new(t),
            fixed_grid: t.cfg.emu == "viewdata" || t.cfg.emu == "mode7",
            init_size: (s.buf.get_width(), s.buf.get_height()),
            armed: true,
        }
    }
}

impl Monitor for CaretMonitor {
    fn after(&mut self, s: &Session, at: usize, r: &EvResult, stats: &mut RunStats) -> Option<Violation> {
        self.reach.observe(s, r, stats);
        let EvResult::Byte(_, _) = r else { return None };
        if s.resize_seen {
            // the property excludes streams that request a text-area resize
            if self.armed {
                self.armed = false;
                stats.count("caret_monitor_disarmed_by_resize");
            }
            return None;
        }
        let b = &s.buf;
        let p = s.caret.get_position();
        let w = b.terminal_state.get_width();
        let h = b.terminal_state.get_height();
        let first = b.get_first_visible_line();
        stats.count("caret_checks");
        if p.x < 0 || p.x >= w {
            return Some(inv("C09", "caret_column", format!("cursor column {} outside 0..{} after byte {} of the stream", p.x, w, s.bytes_delivered), at));
        }
        if p.y < first || p.y >= first + h {
            return Some(inv(
                "C09",
                "caret_row",
                format!("cursor row {} outside the visible rows {}..{} after byte {} of the stream", p.y, first, first + h, s.bytes_delivered),
                at,
            ));
        }
        if self.fixed_grid {
            let sz = b.get_size();
            let ts = b.terminal_state.get_size();
            let lw = b.layers[0].get_size().width;
            if (sz.width, sz.height) != self.init_size || (ts.width, ts.height) != self.init_size || lw != self.init_size.0 {
                return Some(inv(
                    "C09",
                    "fixed_grid_size",
                    format!(
                        "fixed page changed geometry: buffer {}x{}, terminal {}x{}, layer width {} (started {}x{})",
                        sz.width, sz.height, ts.width, ts.height, lw, self.init_size.0, self.init_size.1
                    ),
                    at,
                ));
            }
        }
        // probes: cursor on each edge
        if p.x == 0 {
            stats.count("probe_caret_left_edge");
        }
        if p.x == w - 1 {
            stats.count("probe_caret_right_edge");
        }
        if p.y == first + h - 1 {
            stats.count("probe_caret_bottom_edge");
            if first > 0 {
                stats.count("probe_caret_bottom_edge_with_scrollback");
            }
        }
        None
    }
}

// ------------------------------------------------------------------ C10

pub fn is_scalar(v: u32) -> bool {
    v <= 0xD7FF || (0xE000..=0x10FFFF).contains(&v)
}

/// Every cell of every layer holds a scalar value; every engine-built string is valid UTF-8.
pub fn check_unicode(prop: &str, buf: &Buffer, at: usize, what: &str) -> Option<Violation> {
    check_unicode_opt(prop, buf, at, what, true, usize::MAX)
}

/// Cheap signature of the font table: glyph tables are only re-scanned when it changes.
pub fn font_sig(buf: &Buffer) -> u64 {
    let mut h = 0u64;
    for (slot, f) in buf.font_iter() {
        h ^= crate::rng::mix(crate::rng::mix(*slot as u64, f.glyphs.len() as u64), crate::rng::mix(u64::from(f.checksum), crate::rng::fnv(&f.name)));
    }
    h
}

/// `last_rows`: scan only that many rows at the end of each layer (the rows a terminal can still change).
pub fn check_unicode_opt(prop: &str, buf: &Buffer, at: usize, what: &str, fonts: bool, last_rows: usize) -> Option<Violation> {
    for (li, layer) in buf.layers.iter().enumerate() {
        let skip = layer.lines.len().saturating_sub(last_rows);
        for (y, line) in layer.lines.iter().enumerate().skip(skip) {
            for (x, c) in line.chars.iter().enumerate() {
                let v = c.ch as u32;
                if !is_scalar(v) {
                    return Some(inv(prop, "invalid_char", format!("{what}: layer {li} cell ({x},{y}) holds U+{v:X}, not a Unicode scalar value"), at));
                }
            }
        }
        if std::str::from_utf8(layer.properties.title.as_bytes()).is_err() {
            return Some(inv(prop, "invalid_utf8", format!("{what}: title of layer {li} is not valid UTF-8"), at));
        }
        for l in layer.hyperlinks() {
            if let Some(u) = &l.url {
                if std::str::from_utf8(u.as_bytes()).is_err() {
                    return Some(inv(prop, "invalid_utf8", format!("{what}: hyperlink url is not valid UTF-8"), at));
                }
            }
        }
    }
    if fonts {
        for (slot, f) in buf.font_iter() {
            if let Some(v) = check_font(prop, f, at, &format!("{what}: font {slot}")) {
                return Some(v);
            }
        }
    }
    if let Some(sauce) = buf.get_sauce() {
        let strs = [sauce.title.to_string(), sauce.author.to_string(), sauce.group.to_string()];
        for st in &strs {
            if std::str::from_utf8(st.as_bytes()).is_err() {
                return Some(inv(prop, "invalid_utf8", format!("{what}: SAUCE string is not valid UTF-8"), at));
            }
        }
        for c in &sauce.comments {
            if std::str::from_utf8(c.to_string().as_bytes()).is_err() {
                return Some(inv(prop, "invalid_utf8", format!("{what}: SAUCE comment is not valid UTF-8"), at));
            }
        }
    }
    None
}

/// Strings the engine derives from the cells on request: the text of detected hyperlinks and of cell runs.
/// (A panic in the scanner is not this property's business and is ignored here.)
pub fn derived_strings(prop: &str, buf: &Buffer, at: usize, what: &str) -> Option<Violation> {
    // the scanner walks every cell of the declared size (a SAUCE record may declare 65535 rows): only asked
    // for documents of ordinary size
    if i64::from(buf.get_width().max(0)) * i64::from(buf.get_height().max(0)) > 200_000 {
        return None;
    }
    let r = std::panic::catch_unwind(std::panic::AssertUnwindSafe(|| {
        for l in buf.parse_hyperlinks() {
            let u = l.get_url(buf);
            if std::str::from_utf8(u.as_bytes()).is_err() {
                return Some(inv(prop, "invalid_utf8", format!("{what}: text of the hyperlink detected at ({},{}) is not valid UTF-8", l.position.x, l.position.y), at));
            }
        }
        let w = buf.get_width().clamp(0, 200) as usize;
        for y in 0..buf.get_line_count().min(4) {
            let st = buf.get_string((0, y), w);
            if std::str::from_utf8(st.as_bytes()).is_err() {
                return Some(inv(prop, "invalid_utf8", format!("{what}: text of row {y} (Buffer::get_string) is not valid UTF-8"), at));
            }
        }
        None
    }));
    match r {
        Ok(v) => v,
        Err(_) => {
            crate::guard::take_panics();
            None
        }
    }
}

/// A font's name is a string the engine built and its glyph table is keyed by `char`.
pub fn check_font(prop: &str, f: &icy_engine::BitFont, at: usize, what: &str) -> Option<Violation> {
    if std::str::from_utf8(f.name.as_bytes()).is_err() {
        return Some(inv(prop, "invalid_utf8", format!("{what}: name is not valid UTF-8"), at));
    }
    // the table is a hash map: report the smallest offending key so that the message does not depend on iteration order
    let mut bad: Option<u32> = None;
    let mut n = 0usize;
    for k in f.glyphs.keys() {
        let v = *k as u32;
        if !is_scalar(v) {
            n += 1;
            bad = Some(bad.map_or(v, |b| b.min(v)));
        }
    }
    bad.map(|v| inv(prop, "invalid_char", format!("{what}: {n} glyph table keys are not Unicode scalar values, smallest U+{v:X}"), at))
}

pub struct UnicodeMonitor {
    reach: Reach,
    every: u64,
    n: u64,
    fonts_seen: u64,
    string_len: usize,
}

impl UnicodeMonitor {
    pub fn new(t: &Trace) -> Self {
        UnicodeMonitor {
            reach: Reach::new(t),
            every: t.cfg.monitor_every.max(1),
            n: 0,
            fonts_seen: 0,
            string_len: 0,
        }
    }
    fn parser_strings(s: &Session, at: usize) -> Option<Violation> {
        if let ParserBox::Ansi(p) = &s.parser {
            for (name, st) in [("pending DCS/OSC payload", &p.parse_string), ("macro-in-DCS buffer", &p.macro_dcs)] {
                if std::str::from_utf8(st.as_bytes()).is_err() {
                    return Some(inv("C10", "invalid_utf8", format!("{name} is not valid UTF-8"), at));
                }
            }
            // stored macro bodies (hash map: report the smallest offending id)
            let mut bad: Option<usize> = None;
            for (id, body) in p.verif_macros() {
                if std::str::from_utf8(body.as_bytes()).is_err() {
                    bad = Some(bad.map_or(*id, |b| b.min(*id)));
                }
            }
            if let Some(id) = bad {
                return Some(inv("C10", "invalid_utf8", format!("stored body of macro {id} is not valid UTF-8"), at));
            }
            for l in &p.hyper_links {
                if let Some(u) = &l.url {
                    if std::str::from_utf8(u.as_bytes()).is_err() {
                        return Some(inv("C10", "invalid_utf8", "open hyperlink url is not valid UTF-8".into(), at));
                    }
                }
            }
        }
        None
    }
}

impl Monitor for UnicodeMonitor {
    fn after(&mut self, s: &Session, at: usize, r: &EvResult, stats: &mut RunStats) -> Option<Violation> {
        self.reach.observe(s, r, stats);
        let EvResult::Byte(b, _) = r else { return None };
        self.n += 1;
        // after every final byte of a control function (fills, numeric prints land here) and every k-th byte
        // ... but not while the byte only lengthened a pending DCS/OSC/APS string: nothing else changes
        // until its terminator (which shortens the string again and is scanned)
        let mut in_string = false;
        if let ParserBox::Ansi(p) = &s.parser {
            in_string = p.parse_string.len() > self.string_len;
            self.string_len = p.parse_string.len();
        }
        let is_final = (0x40..=0x7e).contains(b) && !in_string;
        let periodic = self.n % self.every == 0;
        if !(is_final || periodic) {
            return None;
        }
        stats.count("unicode_scans");
        // a terminal only changes the rows it shows: scans after control functions look at those; the
        // periodic scans and the one at the end of the stream look at the whole scrollback
        let rows = if periodic && (s.buf.layers.iter().map(|l| l.lines.len()).sum::<usize>() <= 400 || self.n % 64 == 0) {
            usize::MAX
        } else {
            s.buf.terminal_state.get_height().max(1) as usize + 2
        };
        let sig = font_sig(&s.buf);
        let fonts = sig != self.fonts_seen;
        self.fonts_seen = sig;
        if fonts {
            stats.count("unicode_font_scans");
        }
        check_unicode_opt("C10", &s.buf, at, "terminal session", fonts, rows).or_else(|| Self::parser_strings(s, at))
    }
    fn at_end(&mut self, s: &Session, at: usize, stats: &mut RunStats) -> Option<Violation> {
        stats.count("unicode_scans");
        check_unicode("C10", &s.buf, at, "terminal session (end of stream)")
            .or_else(|| Self::parser_strings(s, at))
            .or_else(|| derived_strings("C10", &s.buf, at, "terminal session (end of stream)"))
            .or_else(|| {
                // strings the graphics parsers keep for the front end (host commands of mouse regions and buttons)
                for f in s.parser.as_dyn().get_mouse_fields() {
                    if let Some(c) = &f.host_command {
                        stats.count("mouse_field_commands_checked");
                        if std::str::from_utf8(c.as_bytes()).is_err() {
                            return Some(inv("C10", "invalid_utf8", "host command of a mouse field is not valid UTF-8".into(), at));
                        }
                    }
                }
                None
            })
    }
}

// ------------------------------------------------------------------ C16 (session leg)

/// If the bytes end in a lone true-colour SGR `ESC [ 38|48 ; 2 ; r ; g ; b m` returns (is foreground, rgb, length).
fn lone_truecolor(recent: &std::collections::VecDeque<u8>) -> Option<(bool, (u8, u8, u8), usize)> {
    let v: Vec<u8> = recent.iter().copied().collect();
    let esc = v.iter().rposition(|b| *b == 0x1b)?;
    let seq = &v[esc..];
    if seq.len() < 12 || seq[1] != b'[' || *seq.last()? != b'm' {
        return None;
    }
    let body = std::str::from_utf8(&seq[2..seq.len() - 1]).ok()?;
    let parts: Vec<&str> = body.split(';').collect();
    if parts.len() != 5 || parts[1] != "2" || !parts.iter().all(|p| !p.is_empty() && p.len() <= 3 && p.bytes().all(|b| b.is_ascii_digit())) {
        return None;
    }
    let fg = match parts[0] {
        "38" => true,
        "48" => false,
        _ => return None,
    };
    let n: Vec<u32> = parts[2..].iter().filter_map(|p| p.parse().ok()).collect();
    if n.len() != 3 || n.iter().any(|x| *x > 255) {
        return None;
    }
    Some((fg, (n[0] as u8, n[1] as u8, n[2] as u8), seq.len()))
}

pub struct PaletteMonitor {
    reach: Reach,
    snapshot: Vec<(u8, u8, u8)>,
    armed: bool,
    /// ANSI sessions: the parser's coarse state after the previous byte (hook), and the stream position of the
    /// last ESC that was delivered in ground state
    prev_code: u8,
    ground_esc_at: u64,
}

impl PaletteMonitor {
    pub fn new(t: &Trace, s: &Session) -> Self {
        let n = s.buf.palette.len();
        PaletteMonitor {
            reach: Reach::new(t),
            snapshot: (0..n).map(|i| s.buf.palette.get_rgb(i as u32)).collect(),
            armed: true,
            prev_code: 0,
            ground_esc_at: u64::MAX,
        }
    }
}

impl Monitor for PaletteMonitor {
    fn after(&mut self, s: &Session, at: usize, r: &EvResult, stats: &mut RunStats) -> Option<Violation> {
        self.reach.observe(s, r, stats);
        let EvResult::Byte(byte, _) = r else { return None };
        let code = if let ParserBox::Ansi(p) = &s.parser { Some(p.verif_state_code()) } else { None };
        if let Some(code) = code {
            // ANSI sessions: an OSC string is the one legitimate way for a stream to redefine an index. Whatever
            // the palette looks like after a byte delivered inside one (its terminator included) is the new baseline.
            let prev = self.prev_code;
            self.prev_code = code;
            if *byte == 0x1b && prev == 0 {
                self.ground_esc_at = s.bytes_delivered;
            }
            if prev == 2 || code == 2 {
                let pal = &s.buf.palette;
                self.snapshot = (0..pal.len()).map(|i| pal.get_rgb(i as u32)).collect();
                stats.count("palette_rebaselined_inside_osc");
                return None;
            }
            // a lone true-colour request (ESC [ 38|48 ; 2 ; r ; g ; b m) that started in ground state adds a colour:
            // the index the cursor now carries must resolve to exactly that colour
            if *byte == b'm' && code == 0 {
                if let Some((fg, rgb, len)) = lone_truecolor(&s.recent) {
                    // (with iCE colours on, the cursor's attribute view folds the blink flag into backgrounds below 8:
                    // backgrounds are only looked at with iCE colours off)
                    if s.bytes_delivered + 1 >= len as u64 && self.ground_esc_at == s.bytes_delivered + 1 - len as u64 && (fg || !s.caret.ice_mode()) {
                        stats.count("truecolor_requests_checked");
                        let a = s.caret.get_attribute();
                        let idx = if fg { a.get_foreground() } else { a.get_background() };
                        let have = s.buf.palette.get_rgb(idx);
                        if have != rgb {
                            return Some(inv(
                                "C16",
                                "truecolor_resolves_wrong",
                                format!("the stream asked for {} {rgb:?}; the cursor now carries index {idx}, which resolves to {have:?}", if fg { "foreground" } else { "background" }),
                                at,
                            ));
                        }
                    }
                }
            }
        } else if s.osc_byte_seen {
            // other emulations: no state hook; OSC needs ']'
            if self.armed {
                self.armed = false;
                stats.count("palette_monitor_disarmed_by_osc_byte");
            }
            return None;
        }
        let pal = &s.buf.palette;
        let n = pal.len();
        stats.count("palette_checks");
        if n < self.snapshot.len() {
            return Some(inv("C16", "palette_shrunk", format!("palette went from {} to {n} colours; indices {n}.. no longer resolve", self.snapshot.len()), at));
        }
        for (i, want) in self.snapshot.iter().enumerate() {
            let have = pal.get_rgb(i as u32);
            if have != *want {
                return Some(inv(
                    "C16",
                    "palette_index_changed",
                    format!("palette index {i} resolved to {want:?} and now resolves to {have:?} after byte {} of the stream", s.bytes_delivered),
                    at,
                ));
            }
        }
        if n > self.snapshot.len() {
            stats.add("probe_palette_grew", (n - self.snapshot.len()) as u64);
            for i in self.snapshot.len()..n {
                self.snapshot.push(pal.get_rgb(i as u32));
            }
        }
        None
    }
}

// ------------------------------------------------------------------ C20

pub struct CanvasMonitor {
    reach: Reach,
    igs: bool,
    fault_free: bool,
    /// recent bytes, for recognising IGS loop headers "&from,to,step,delay,"
    window: Vec<u8>,
    max_loop_bound: i64,
    somes_since_rx: i64,
}

impl CanvasMonitor {
    pub fn new(t: &Trace) -> Self {
        CanvasMonitor {
            reach: Reach::new(t),
            igs: t.cfg.emu == "igs",
            fault_free: t.faults.is_empty(),
            window: Vec::new(),
            max_loop_bound: 0,
            somes_since_rx: 0,
        }
    }

    /// Parses "&[>]from,to,step,delay," at the end of the window (ignoring the characters the engine ignores).
    fn loop_header(&self) -> Option<(i64, i64, i64)> {
        let w = &self.window;
        let start = w.iter().rposition(|b| *b == b'&')?;
        let mut nums: Vec<i64> = vec![0];
        let mut digits = 0;
        for b in &w[start + 1..] {
            match *b {
                b' ' | b'>' | b'\r' | b'_' | b'\n' => {}
                b'0'..=b'9' => {
                    digits += 1;
                    let l = nums.last_mut()?;
                    *l = (*l * 10 + i64::from(*b - b'0')).min(i64::from(i32::MAX));
                }
                b',' => nums.push(0),
                _ => return None,
            }
        }
        // complete once the fourth number is closed by a comma
        if nums.len() == 5 && digits > 0 {
            Some((nums[0], nums[1], nums[2]))
        } else {
            None
        }
    }
}

impl Monitor for CanvasMonitor {
    fn after(&mut self, s: &Session, at: usize, r: &EvResult, stats: &mut RunStats) -> Option<Violation> {
        self.reach.observe(s, r, stats);
        match r {
            EvResult::Byte(b, _) => {
                self.somes_since_rx = 0;
                if self.igs {
                    self.window.push(*b);
                    if self.window.len() > 96 {
                        self.window.drain(..32);
                    }
                    if *b == b',' {
                        if let Some((from, to, step)) = self.loop_header() {
                            let bound = (to - from).abs() / step.max(1) + 2;
                            self.max_loop_bound = self.max_loop_bound.max(bound);
                            stats.count("probe_igs_loop_header_seen");
                        }
                    }
                }
            }
            EvResult::NextAction(a) => {
                if a.is_some() {
                    self.somes_since_rx += 1;
                    stats.count("probe_next_action_some");
                    // a loop must end: its length may depend on its own from/to/step, on nothing else
                    if self.fault_free && self.max_loop_bound > 0 && self.somes_since_rx > self.max_loop_bound {
                        return Some(inv(
                            "C20",
                            "loop_does_not_end",
                            format!(
                                "get_next_action kept returning steps: {} since the last byte, but no loop in this stream needs more than {}",
                                self.somes_since_rx, self.max_loop_bound
                            ),
                            at,
                        ));
                    }
                } else if self.somes_since_rx > 0 {
                    stats.count("probe_loop_ran_to_completion");
                    self.somes_since_rx = 0;
                }
            }
            EvResult::Picture(p) => match p {
                Some((size, len)) => {
                    stats.count("probe_picture_some");
                    let want = i64::from(size.width) * i64::from(size.height) * 4;
                    if size.width < 0 || size.height < 0 || want != *len as i64 {
                        return Some(inv(
                            "C20",
                            "canvas_incomplete",
                            format!("get_picture_data returned {len} bytes for a {} x {} canvas (expected {want})", size.width, size.height),
                            at,
                        ));
                    }
                }
                None => stats.count("probe_picture_none"),
            },
            _ => {}
        }
        None
    }
}
