//! Monitors for the text-terminal properties (C01/C03 reach, C09, C10, C16, C20).

use crate::monitors::Monitor;
use crate::term::{EvResult, Session};
use crate::trace::{RunStats, Trace, Violation};

pub struct ReachMonitor;
impl ReachMonitor {
    pub fn new(_t: &Trace) -> Self {
        ReachMonitor
    }
}
impl Monitor for ReachMonitor {
    fn after(&mut self, _s: &Session, _at: usize, _r: &EvResult, _stats: &mut RunStats) -> Option<Violation> {
        None
    }
}
pub struct CaretMonitor;
impl CaretMonitor {
    pub fn new(_t: &Trace, _s: &Session) -> Self {
        CaretMonitor
    }
}
impl Monitor for CaretMonitor {
    fn after(&mut self, _s: &Session, _at: usize, _r: &EvResult, _stats: &mut RunStats) -> Option<Violation> {
        None
    }
}
pub struct UnicodeMonitor;
impl UnicodeMonitor {
    pub fn new(_t: &Trace) -> Self {
        UnicodeMonitor
    }
}
impl Monitor for UnicodeMonitor {
    fn after(&mut self, _s: &Session, _at: usize, _r: &EvResult, _stats: &mut RunStats) -> Option<Violation> {
        None
    }
}
pub struct PaletteMonitor;
impl PaletteMonitor {
    pub fn new(_s: &Session) -> Self {
        PaletteMonitor
    }
}
impl Monitor for PaletteMonitor {
    fn after(&mut self, _s: &Session, _at: usize, _r: &EvResult, _stats: &mut RunStats) -> Option<Violation> {
        None
    }
}
pub struct CanvasMonitor;
impl CanvasMonitor {
    pub fn new(_t: &Trace) -> Self {
        CanvasMonitor
    }
}
impl Monitor for CanvasMonitor {
    fn after(&mut self, _s: &Session, _at: usize, _r: &EvResult, _stats: &mut RunStats) -> Option<Violation> {
        None
    }
}
