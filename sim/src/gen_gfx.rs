//! C20 workload: RIPscrip and IGS command streams, the icon cache directory, the UI actor.

use crate::gen_term::{swarm, transmit, Piece, Swarm};
use crate::rng::Rng;
use crate::trace::{to_hex, Ev, Trace};

pub const RIP_L0: &[u8] = b"wv*eEgH>cQaWmT@YXLRBCOoAVIiZPplF=Ss$#";
pub const RIP_L1: &[u8] = b"MKTtECPWIBUD\x1bGRF";
pub const IGS_CMDS: &[u8] = b"AbBCDEFfgGqHIJkKLzMnNOPQRsStTUVWYZ<?cdilmprvwX";
pub const GFX_FUEL: u64 = 256 * 640 * 400;

const IGS_VALUES: [i64; 24] = [0, 1, 2, 3, 4, 5, 8, 10, 15, 16, 99, 100, 199, 200, 319, 320, 639, 640, 9999, 99999, 99999, 1_000_000, 90_000_000, 2_147_483_647];

fn piece(bytes: Vec<u8>, fragile: bool) -> Piece {
    Piece { bytes, fragile, sixel: false }
}

fn b36(rng: &mut Rng, style: u64) -> u8 {
    match style {
        0 => b'0',
        1 => b'1',
        2 => b'Z',
        3 => *rng.pick(b"01Z"),
        _ => *rng.pick(b"0123456789ABCDEFGHIJKLMNOPQRSTUVWXYZ"),
    }
}

fn rip_params(rng: &mut Rng, len: usize) -> Vec<u8> {
    let style = rng.below(7);
    let mut v = Vec::new();
    for _ in 0..len {
        if style == 6 && rng.chance(1, 5) {
            v.push(*rng.pick(b" .,;:-_abcxyz<>()*$\\\"'/"));
        } else {
            v.push(b36(rng, style));
        }
    }
    v
}

pub const CACHE_NAMES: [&str; 5] = ["ICON.ICN", "LOGO.ICN", "B.ICN", "MENU.RIP", "DIR.ICN/"];

fn icon_bytes(rng: &mut Rng) -> Vec<u8> {
    let w = 1 + rng.below(40) as u16;
    let h = 1 + rng.below(24) as u16;
    let row = (w as usize).div_ceil(8);
    let mut v = Vec::new();
    v.extend((w - 1).to_le_bytes());
    v.extend((h - 1).to_le_bytes());
    for _ in 0..h as usize * row * 4 {
        v.push(rng.byte());
    }
    match rng.below(8) {
        0 => v.clear(),
        1 => v.truncate(rng.usize(v.len() + 1)),
        2 => {
            let at = rng.usize(v.len());
            v[at] ^= 1 << rng.below(8);
        }
        3 => {
            v[0] = 0xff;
            v[1] = 0xff;
        }
        4 => {
            v[2] = 0xff;
            v[3] = 0xff;
        }
        _ => {}
    }
    v
}

fn rip_file_name(rng: &mut Rng) -> Vec<u8> {
    match rng.below(8) {
        0 => b"ICON.ICN".to_vec(),
        1 => b"icon".to_vec(),
        2 => b"LOGO".to_vec(),
        3 => b"B.ICN".to_vec(),
        4 => b"NOPE.ICN".to_vec(),
        5 => b"DIR.ICN".to_vec(),
        6 => b"MENU.RIP".to_vec(),
        _ => (0..rng.usize(12)).map(|_| *rng.pick(b"ABCXYZ.019_-")).collect(),
    }
}

fn rip_command(rng: &mut Rng) -> Vec<u8> {
    let mut v = Vec::new();
    match rng.below(12) {
        0..=6 => {
            let c = *rng.pick(RIP_L0);
            v.push(c);
            let len = if rng.chance(1, 3) { rng.usize(41) } else { *rng.pick(&[0usize, 1, 2, 4, 6, 8, 10, 12, 14, 16, 18]) };
            v.extend(rip_params(rng, len));
            if matches!(c, b'T' | b'@' | b'$') && rng.chance(1, 2) {
                v.extend(b"Hello $DATE$ $X$");
            }
        }
        7 | 8 => {
            let c = *rng.pick(RIP_L1);
            v.push(b'1');
            v.push(c);
            match c {
                b'I' => {
                    let len = if rng.chance(2, 3) { 9 } else { rng.usize(14) };
                    v.extend(rip_params(rng, len));
                    v.extend(rip_file_name(rng));
                }
                b'F' => {
                    // mode 0..4 and beyond
                    v.push(b'0');
                    v.push(*rng.pick(b"01234Z"));
                    v.extend(rip_params(rng, 4));
                    v.extend(rip_file_name(rng));
                }
                _ => {
                    let len = rng.usize(41);
                    v.extend(rip_params(rng, len));
                    if rng.chance(1, 3) {
                        v.extend(b"<>label<>text");
                    } else if rng.chance(1, 4) {
                        // labels and text outside ASCII (the stream is bytes, the engine sees U+0080..U+00FF)
                        v.extend(b"<>");
                        for _ in 0..1 + rng.usize(6) {
                            v.push(if rng.chance(1, 2) { 0x80 + rng.below(0x80) as u8 } else { b'a' + rng.below(26) as u8 });
                        }
                        v.extend(b"<>t\xe9xt");
                    }
                }
            }
        }
        9 => {
            v.extend(b"9\x1b");
            let len = rng.usize(12);
            v.extend(rip_params(rng, len));
        }
        10 => {
            // polygon family: count + points
            let c = *rng.pick(b"PplZ");
            v.push(c);
            let n = rng.below(8);
            v.extend(format!("{:02}", n).into_bytes());
            let len = rng.usize(4 * n as usize + 5);
            v.extend(rip_params(rng, len));
        }
        _ => {
            v.push(rng.byte());
            let len = rng.usize(8);
            v.extend(rip_params(rng, len));
        }
    }
    v
}

fn rip_line(rng: &mut Rng) -> Piece {
    let mut v = b"!".to_vec();
    let n = 1 + rng.usize(4);
    for _ in 0..n {
        v.push(b'|');
        let mut c = rip_command(rng);
        if rng.chance(1, 16) && c.len() > 2 {
            // continuation line inside the parameters
            let at = 1 + rng.usize(c.len() - 1);
            c.splice(at..at, b"\\\r\n".to_vec());
        }
        v.extend(c);
    }
    if rng.chance(1, 12) {
        v.extend(b"|#|#|#");
    }
    v.extend(if rng.chance(1, 2) { b"\r\n".to_vec() } else { b"\n".to_vec() });
    piece(v, true)
}

fn igs_num(rng: &mut Rng) -> String {
    if rng.chance(1, 3) {
        rng.range(0, 700).to_string()
    } else if rng.chance(1, 3) {
        // selectors (line type, marker type, pattern number, mode) are small enumerations: every value counts
        rng.range(0, 17).to_string()
    } else {
        rng.pick(&IGS_VALUES).to_string()
    }
}

fn igs_command(rng: &mut Rng, c: u8) -> Vec<u8> {
    let mut v = vec![c];
    if rng.chance(1, 2) {
        v.push(b'>');
    }
    if c == b'W' {
        v.extend(format!("{},{},", igs_num(rng), igs_num(rng)).into_bytes());
        v.extend(b"Some text");
        v.push(if rng.chance(7, 8) { b'@' } else { b'\n' });
        return v;
    }
    // most commands take one to six numbers
    let n = if rng.chance(2, 3) { 1 + rng.usize(6) } else { rng.usize(13) };
    for i in 0..n {
        if i > 0 {
            v.push(b',');
        }
        if i < 2 && rng.chance(1, 3) {
            // the leading numbers are often selectors
            v.extend(rng.range(0, 13).to_string().into_bytes());
        } else {
            v.extend(igs_num(rng).into_bytes());
        }
        if rng.chance(1, 24) {
            v.extend(b"_\r\n");
        }
    }
    v.push(b':');
    v
}

/// (bytes, number of get_next_action calls the UI should make afterwards)
fn igs_loop(rng: &mut Rng) -> (Vec<u8>, usize) {
    let (from, to, step): (i64, i64, i64) = match rng.below(8) {
        0 => (0, 10, 0),
        1 => (10, 0, 0),
        2 => (20, 4, 3),
        3 => (0, 0, 1),
        4 => (0, rng.range(1, 60), rng.range(1, 9)),
        5 => (rng.range(0, 300), rng.range(0, 300), rng.range(1, 20)),
        6 => (0, 99999, 1000),
        _ => (0, 16, 4),
    };
    let delay = *rng.pick(&[0i64, 0, 0, 1, 5, 99999]);
    let cmd = *rng.pick(b"LLBOPDZsCSq?X");
    let groups = 1 + rng.usize(3);
    let per = rng.usize(6);
    let count = if rng.chance(1, 6) { rng.below(20) as usize } else { groups * per };
    let mut v = format!("&>{from},{to},{step},{delay},{},{count}", cmd as char).into_bytes();
    if count > 0 || rng.chance(1, 2) {
        v.push(b',');
        for g in 0..groups {
            for p in 0..per {
                if p > 0 {
                    v.push(b',');
                }
                let s = match rng.below(7) {
                    0 => "x".to_string(),
                    1 => "y".to_string(),
                    2 => format!("+{}", igs_num(rng)),
                    3 => format!("-{}", igs_num(rng)),
                    4 => format!("!{}", igs_num(rng)),
                    5 => "q".to_string(),
                    _ => igs_num(rng),
                };
                v.extend(s.into_bytes());
            }
            v.push(if g + 1 < groups || rng.chance(1, 2) { b':' } else { b',' });
        }
    }
    let calls = (((to - from).abs() / step.max(1)) + 4).min(120) as usize;
    (v, calls)
}

fn igs_line(rng: &mut Rng) -> (Piece, usize) {
    let mut v = b"G#".to_vec();
    let mut calls = 0;
    let n = 1 + rng.usize(4);
    for _ in 0..n {
        if rng.chance(1, 6) {
            let (l, c) = igs_loop(rng);
            v.extend(l);
            calls += c;
        } else if rng.chance(1, 10) {
            // grab a piece of the screen into memory, then put (a piece of) it back: the piece may lie inside the
            // grabbed image, stick out of it, or be larger than it
            let small = |r: &mut Rng| r.range(0, 40);
            let any = |r: &mut Rng| *r.pick(&[0i64, 1, 5, 9, 10, 11, 20, 39, 40, 41, 100, 199, 200, 319, 320, 700]);
            let wm = rng.range(0, 16);
            v.extend(format!("G>1,{wm},{},{},{},{}:", small(rng), small(rng), small(rng), small(rng)).into_bytes());
            for _ in 0..1 + rng.usize(2) {
                match rng.below(3) {
                    0 => v.extend(format!("G>2,{},{},{}:", rng.range(0, 16), any(rng), any(rng)).into_bytes()),
                    1 => v.extend(format!("G>3,{},{},{},{},{},{},{}:", rng.range(0, 16), any(rng), any(rng), any(rng), any(rng), any(rng), any(rng)).into_bytes()),
                    _ => v.extend(format!("G>0,{},{},{},{},{},{},{}:", rng.range(0, 16), any(rng), any(rng), any(rng), any(rng), any(rng), any(rng)).into_bytes()),
                }
            }
        } else {
            let c = if rng.chance(1, 12) { rng.byte() } else { *rng.pick(IGS_CMDS) };
            v.extend(igs_command(rng, c));
        }
    }
    v.extend(b"\r\n");
    (piece(v, true), calls)
}

/// IGS commands that set drawing state (attributes, line and marker types, hollow, mode, effects, colours,
/// resolution, scaling, cursor) and the drawing commands that read it.
const IGS_STATE_CMDS: &[u8] = b"ATHMECSRPgk";
const IGS_PROBE: &[u8] = b"L>0,0,50,50:D>80,20:B>10,10,60,40,0:U>20,20,70,50,1:O>100,100,30:Q>100,100,40,20:J>100,100,30,20,0,90:K>100,100,30,0,90:V>100,100,30,0,90:Y>100,100,30,20,0,90:z>3,10,10,50,20,90,30:f>3,10,10,50,20,90,30:P>50,50:Z>5,5,30,30:F>60,60:f>0:z>0:f>1,5,5:f>3,10,10,50,20,90,30,7:z>3,10,10,50,20,90,30,7:f>2,10,10,50,20,90:f>3,10,10,50:W>10,10,Hi@";
/// per state command: arity 1 with 9 first values, arities 2..=6 with 9 x 13 (first, second) values
const SELECTOR_PER_CMD: u64 = 9 + 5 * 9 * 13;

pub fn selector_total() -> u64 {
    IGS_STATE_CMDS.len() as u64 * SELECTOR_PER_CMD
}

/// RIP commands that set drawing state, with the width of their parameter block (two base-36 digits per field).
const RIP_STATE_CMDS: [(u8, usize); 9] = [(b'=', 8), (b'S', 4), (b'W', 2), (b'Y', 8), (b'c', 2), (b'v', 8), (b'w', 10), (b'a', 4), (b's', 18)];
/// one of each drawing command (level 0), read under the state set before
const RIP_PROBE: &[&str] = &[
    "S010C", "F5K5K0F", "L00001010", "R05051E14", "B05051E14", "C1E1E0A", "O1E1E005A140A", "o1E1E140A", "A1E1E005A0A", "V1E1E005A140A", "I1E1E005A0A", "i1E1E005A140A",
    "Z00001010202030300A", "P03000010101E05", "p03000010101E05", "l03000010101E05", "F0A0A0F", "X0A0A", "m0505", "THello", "@0A0AHi", "P00", "p00", "l00", "p010505",
];
const RIP_SELECT_VALUES: u64 = 17;

fn rip_selector_runs(width: usize) -> u64 {
    if width <= 2 {
        RIP_SELECT_VALUES
    } else {
        RIP_SELECT_VALUES * RIP_SELECT_VALUES
    }
}

pub fn rip_selector_total() -> u64 {
    RIP_STATE_CMDS.iter().map(|c| rip_selector_runs(c.1)).sum()
}

fn b36_2(v: u64) -> [u8; 2] {
    const D: &[u8; 36] = b"0123456789ABCDEFGHIJKLMNOPQRSTUVWXYZ";
    [D[(v / 36 % 36) as usize], D[(v % 36) as usize]]
}

/// Far corner of the RIP view port (`v`) and text window (`w`): on, at and beyond the canvas edges (640 x 350).
const RIP_FAR: [u64; 11] = [0, 1, 10, 349, 350, 351, 479, 480, 639, 640, 1295];

pub fn rip_corner_total() -> u64 {
    2 * (RIP_FAR.len() * RIP_FAR.len()) as u64
}

pub fn exhaustive_total() -> u64 {
    ((RIP_L0.len() + RIP_L1.len() + 1) * 25 * 4) as u64 + (IGS_CMDS.len() * 13 * 3) as u64 + selector_total() + rip_selector_total() + rip_corner_total()
}

/// Systematic part: every command with every parameter-list length over the digits {0, 1, Z}.
fn systematic(rng: &mut Rng, idx: u64, t: &mut Trace) {
    let rip_n = ((RIP_L0.len() + RIP_L1.len() + 1) * 25 * 4) as u64;
    if idx < rip_n {
        t.cfg.emu = "rip".into();
        let c = (idx / 100) as usize;
        let len = (idx % 100 / 4) as usize;
        let style = idx % 4;
        let mut v = b"!|".to_vec();
        if c < RIP_L0.len() {
            v.push(RIP_L0[c]);
        } else if c < RIP_L0.len() + RIP_L1.len() {
            v.push(b'1');
            v.push(RIP_L1[c - RIP_L0.len()]);
        } else {
            v.extend(b"9\x1b");
        }
        for _ in 0..len {
            v.push(b36(rng, style));
        }
        v.extend(b"|\n");
        t.labels.push(format!("cmd=rip:{}:{len}", String::from_utf8_lossy(&v[2..4.min(v.len())]).replace('\x1b', "ESC")));
        t.rx(&v);
        t.events.push(Ev::Picture);
    } else if idx - rip_n >= (IGS_CMDS.len() * 13 * 3) as u64 + selector_total() + rip_selector_total() {
        // RIP far-corner sweep: a view port or text window from the origin to every combination of far corners,
        // then one of each drawing command (an unbounded flood fill first)
        let r = idx - rip_n - (IGS_CMDS.len() * 13 * 3) as u64 - selector_total() - rip_selector_total();
        t.cfg.emu = "rip".into();
        let n = RIP_FAR.len() as u64;
        let cmd = if r / (n * n) == 0 { b'v' } else { b'w' };
        let (x1, y1) = (RIP_FAR[(r % n) as usize], RIP_FAR[(r / n % n) as usize]);
        let mut v = b"!|".to_vec();
        v.push(cmd);
        v.extend(b"0000");
        v.extend(b36_2(x1));
        v.extend(b36_2(y1));
        if cmd == b'w' {
            v.extend(b"10");
        }
        for p in RIP_PROBE {
            v.push(b'|');
            v.extend(p.bytes());
        }
        v.extend(b"|\n");
        t.labels.push(format!("cmd=rip:corner:{}", cmd as char));
        t.rx(&v);
        t.events.push(Ev::Picture);
    } else if idx - rip_n >= (IGS_CMDS.len() * 13 * 3) as u64 + selector_total() {
        // RIP selector sweep: one state-setting command with every small value in its first two fields, then
        // one of each drawing command under that state
        let mut r = idx - rip_n - (IGS_CMDS.len() * 13 * 3) as u64 - selector_total();
        t.cfg.emu = "rip".into();
        let mut which = RIP_STATE_CMDS[0];
        for c in RIP_STATE_CMDS {
            if r < rip_selector_runs(c.1) {
                which = c;
                break;
            }
            r -= rip_selector_runs(c.1);
        }
        let (p1, p2) = (r % RIP_SELECT_VALUES, r / RIP_SELECT_VALUES);
        let mut v = b"!|".to_vec();
        v.push(which.0);
        for f in 0..which.1 / 2 {
            v.extend(b36_2(match f {
                0 => p1,
                1 => p2,
                _ => 1,
            }));
        }
        for p in RIP_PROBE {
            v.push(b'|');
            v.extend(p.bytes());
        }
        v.extend(b"|\n");
        t.labels.push(format!("cmd=rip:select:{}", which.0 as char));
        t.rx(&v);
        t.events.push(Ev::Picture);
    } else if idx - rip_n >= (IGS_CMDS.len() * 13 * 3) as u64 {
        // selector sweep: one state-setting command with every small (first, second) selector pair and
        // every plausible arity, then one of each drawing command under that state
        let idx = idx - rip_n - (IGS_CMDS.len() * 13 * 3) as u64;
        t.cfg.emu = "igs".into();
        let c = IGS_STATE_CMDS[(idx / SELECTOR_PER_CMD) as usize % IGS_STATE_CMDS.len()];
        let r = idx % SELECTOR_PER_CMD;
        let (arity, p1, p2) = if r < 9 { (1, r, 0) } else { (2 + (r - 9) / 117, (r - 9) % 117 / 13, (r - 9) % 13) };
        let mut v = b"G#".to_vec();
        v.push(c);
        v.push(b'>');
        for i in 0..arity {
            if i > 0 {
                v.push(b',');
            }
            let val = match i {
                0 => p1,
                1 => p2,
                _ => 1,
            };
            v.extend(val.to_string().into_bytes());
        }
        v.push(b':');
        v.extend(IGS_PROBE);
        v.extend(b"\r\n");
        t.labels.push(format!("cmd=igs:select:{}:{arity}", c as char));
        t.rx(&v);
        t.events.push(Ev::NextAction);
        t.events.push(Ev::Picture);
    } else {
        let idx = idx - rip_n;
        t.cfg.emu = "igs".into();
        let c = IGS_CMDS[(idx / 39) as usize % IGS_CMDS.len()];
        let n = (idx % 39 / 3) as usize;
        let style = idx % 3;
        let mut v = b"G#".to_vec();
        v.push(c);
        for i in 0..n {
            if i > 0 {
                v.push(b',');
            }
            let val = match style {
                0 => "0".to_string(),
                1 => "1".to_string(),
                _ => "99999".to_string(),
            };
            v.extend(val.into_bytes());
        }
        v.extend(if c == b'W' { b"text@\r\n".to_vec() } else { b":\r\n".to_vec() });
        t.labels.push(format!("cmd=igs:{}:{n}", c as char));
        t.rx(&v);
        t.events.push(Ev::NextAction);
        t.events.push(Ev::Picture);
    }
}

/// C10 in the RIP emulation: mouse regions and buttons keep a host command string for the front end; `^x` in it
/// stands for a control character, and what follows the caret may be anything.
pub fn gen_c10_rip(rng: &mut Rng) -> Trace {
    let mut t = Trace::new("C10", "term");
    t.cfg.emu = "rip".into();
    t.cfg.w = 80;
    t.cfg.h = 25;
    t.cfg.fuel = GFX_FUEL;
    t.cfg.clock_ms = 1_700_000_000_000;
    t.labels.push("emu=rip".into());
    const AFTER_CARET: [u32; 16] = [b'0' as u32, b' ' as u32, b'?' as u32, b'@' as u32, b'A' as u32, b'M' as u32, b'[' as u32, b'^' as u32, b'~' as u32, 0x7f, 0xe9, 0xE000, 0xE03F, 0xE040, 0x1_F600, 0x10_FFFF];
    for _ in 0..1 + rng.usize(4) {
        if rng.chance(1, 3) {
            t.rx(&rip_line(rng).bytes);
            continue;
        }
        // |1M num x0 y0 x1 y1 clk clr res text   or   |1U x0 y0 x1 y1 hotkey flags res text
        let head: &[u8] = if rng.chance(1, 2) { b"!|1M0000001010100000" } else { b"!|1B0A0A010000000F080F070F0F000F00000000000000|1U0000101000000<>label<>" };
        t.events.push(Ev::Rx { hex: to_hex(head) });
        t.events.push(Ev::Rx { hex: to_hex(b"go") });
        for _ in 0..1 + rng.usize(3) {
            t.events.push(Ev::Rx { hex: to_hex(b"^") });
            t.events.push(Ev::RxWide { cps: vec![*rng.pick(&AFTER_CARET)] });
            t.events.push(Ev::Rx { hex: to_hex(b"x") });
        }
        t.events.push(Ev::Rx { hex: to_hex(b"|\n") });
    }
    t.events.push(Ev::Picture);
    t
}

pub fn gen_c20(rng: &mut Rng, run: u64, thorough: bool) -> Trace {
    let mut t = Trace::new("C20", "term");
    t.cfg.w = 80;
    t.cfg.h = 25;
    t.cfg.fuel = GFX_FUEL;
    // clock: anywhere between 1970 and 9999, file times before and after "now"
    t.cfg.clock_ms = match rng.below(5) {
        0 => 0,
        1 => 253_402_300_799_000,
        2 => rng.range(0, 253_402_300_799) * 1000,
        _ => 1_700_000_000_000,
    };
    if run < exhaustive_total() {
        systematic(rng, run, &mut t);
        return t;
    }
    let rip = rng.chance(1, 2);
    t.cfg.emu = if rip { "rip" } else { "igs" }.into();
    t.labels.push(format!("emu={}", t.cfg.emu));
    if rip {
        for name in CACHE_NAMES {
            if rng.chance(2, 3) {
                let content = if name.ends_with('/') { Vec::new() } else { icon_bytes(rng) };
                t.cfg.files.insert(name.to_string(), to_hex(&content));
                let rel = match rng.below(5) {
                    0 => -t.cfg.clock_ms / 1000 - rng.range(1, 1_000_000),
                    1 => 86_400 * 365,
                    2 => -t.cfg.clock_ms / 1000,
                    _ => -rng.range(0, 86_400 * 400),
                };
                t.cfg.mtimes.insert(name.to_string(), rel);
            }
        }
    }
    let budget = match rng.below(3) {
        0 => 80,
        1 => 400,
        _ => {
            if thorough {
                4000
            } else {
                1500
            }
        }
    };
    let sw: Swarm = swarm(rng);
    let mut pieces = Vec::new();
    let mut calls_after: Vec<usize> = Vec::new();
    let mut total = 0;
    while total < budget {
        let (p, calls) = if rng.chance(1, 10) {
            // plain text and ANSI between graphics
            (piece(b"Plain text \x1b[1;31mred\x1b[0m\r\n".to_vec(), false), 0)
        } else if rip {
            (rip_line(rng), 0)
        } else {
            igs_line(rng)
        };
        total += p.bytes.len();
        pieces.push(p);
        calls_after.push(calls);
    }
    let mut idx = 0usize;
    let mut ui = |rng: &mut Rng, t: &mut Trace, _sixels: usize| {
        let calls = calls_after.get(idx).copied().unwrap_or(0);
        idx += 1;
        for _ in 0..calls {
            t.events.push(Ev::NextAction);
        }
        if rng.chance(1, 3) {
            t.events.push(Ev::NextAction);
        }
        if rng.chance(1, 3) {
            t.events.push(Ev::Picture);
        }
        if rng.chance(1, 20) {
            t.events.push(Ev::Clock {
                advance_ms: rng.range(-86_400_000 * 400, 86_400_000 * 400),
            });
        }
    };
    transmit(rng, &sw, pieces, &mut t, &mut ui);
    if rng.chance(1, 8) {
        // text commands whose text arrives as characters, not bytes (a front end that decodes UTF-8 itself):
        // characters the graphics fonts have no glyph for
        const WIDE: [u32; 8] = [0x100, 0x2588, 0x263A, 0xE000, 0xFFFD, 0x1_F600, 0x10_FFFF, 0xE9];
        let cps: Vec<u32> = (0..1 + rng.usize(4)).map(|_| if rng.chance(1, 3) { u32::from(b'a' + rng.below(26) as u8) } else { *rng.pick(&WIDE) }).collect();
        if rip {
            t.events.push(Ev::Rx { hex: to_hex(if rng.chance(1, 2) { b"!|@0A0A" } else { b"!|T" }) });
            t.events.push(Ev::RxWide { cps });
            t.events.push(Ev::Rx { hex: to_hex(b"|\n") });
        } else {
            t.events.push(Ev::Rx { hex: to_hex(b"G#W>10,10,") });
            t.events.push(Ev::RxWide { cps });
            t.events.push(Ev::Rx { hex: to_hex(b"@\r\n") });
        }
        t.labels.push("wide=yes".into());
    }
    t.events.push(Ev::NextAction);
    t.events.push(Ev::Picture);
    t
}
