//! Terminal-session executor: Host -> Line -> Terminal (real parser + Buffer + Caret) <-> decode pool
//! (real threads, parked and released one at a time) <-> UI loop (poll / next_action / picture).
//! Executes the effective events of a trace and evaluates the property's invariants after every one.

use crate::guard;
use crate::monitors::{self, Monitor};
use crate::trace::{from_hex, Ev, Outcome, RunStats, Trace, Violation};
use icy_engine::verif_hooks as hooks;
use icy_engine::{ansi, BufferParser, Buffer, CallbackAction, Caret, TextPane};
use std::collections::VecDeque;
use std::panic::{catch_unwind, AssertUnwindSafe};
use std::time::Duration;

pub const DEFAULT_FUEL: u64 = 50_000_000;
pub const DEFAULT_DECODE_FUEL: u64 = 20_000_000;
pub const DEFAULT_MAX_DEPTH: u32 = 64;
pub const DEFAULT_MEM_MIB: u64 = 256;
pub const ONE_ALLOC_MIB: u64 = 64;

pub enum ParserBox {
    Ansi(ansi::Parser),
    Other(Box<dyn BufferParser>),
}

impl ParserBox {
    pub fn as_dyn(&self) -> &dyn BufferParser {
        match self {
            ParserBox::Ansi(p) => p,
            ParserBox::Other(p) => p.as_ref(),
        }
    }
    pub fn get(&mut self) -> &mut dyn BufferParser {
        match self {
            ParserBox::Ansi(p) => p,
            ParserBox::Other(p) => p.as_mut(),
        }
    }
}

pub fn make_parser(trace: &Trace, scratch: Option<&std::path::Path>) -> Option<ParserBox> {
    use icy_engine::parsers::*;
    let cfg = &trace.cfg;
    Some(match cfg.emu.as_str() {
        "ansi" => {
            let mut p = ansi::Parser::default();
            p.ansi_music = ansi::MusicOption::from(cfg.music.clone());
            p.bs_is_ctrl_char = cfg.bs_is_ctrl;
            ParserBox::Ansi(p)
        }
        "avatar" => ParserBox::Other(Box::<avatar::Parser>::default()),
        "pcboard" => ParserBox::Other(Box::<pcboard::Parser>::default()),
        "ctrla" => ParserBox::Other(Box::<ctrla::Parser>::default()),
        "renegade" => ParserBox::Other(Box::<renegade::Parser>::default()),
        "petscii" => ParserBox::Other(Box::<petscii::Parser>::default()),
        "atascii" => ParserBox::Other(Box::<atascii::Parser>::default()),
        "viewdata" => ParserBox::Other(Box::<viewdata::Parser>::default()),
        "mode7" => ParserBox::Other(Box::<mode7::Parser>::default()),
        "ascii" => ParserBox::Other(Box::<ascii::Parser>::default()),
        "rip" => {
            let dir = scratch.map(|p| p.to_path_buf()).unwrap_or_else(|| std::path::PathBuf::from("/nonexistent-verif-cache"));
            let mut fallback = ansi::Parser::default();
            fallback.bs_is_ctrl_char = cfg.bs_is_ctrl;
            ParserBox::Other(Box::new(rip::Parser::new(Box::new(fallback), dir)))
        }
        "igs" => {
            let exe: std::sync::Arc<std::sync::Mutex<Box<dyn igs::CommandExecutor>>> =
                std::sync::Arc::new(std::sync::Mutex::new(Box::<igs::DrawExecutor>::default()));
            ParserBox::Other(Box::new(igs::Parser::new(exe)))
        }
        _ => return None,
    })
}

/// One entry of the harness's mirror of `Buffer.sixel_threads`.
#[derive(Clone, Copy, Debug, PartialEq)]
pub enum Slot {
    /// arrival ordinal, gate ticket
    Gated(usize, usize),
    /// arrival ordinal; the decode closure registered no ticket (hook line missing) and runs free
    Free(usize),
}

impl Slot {
    pub fn ordinal(&self) -> usize {
        match self {
            Slot::Gated(o, _) | Slot::Free(o) => *o,
        }
    }
}

#[derive(Clone, Debug)]
pub struct Arrival {
    pub ordinal: usize,
    pub gated: Option<usize>,
    pub pos: icy_engine::Position,
    /// the DCS string as the engine saw it (only known for the ANSI emulation)
    pub dcs: Option<String>,
    pub released: bool,
    pub finished: Option<hooks::TicketState>,
    /// dropped from the queue by a clear before it was consumed
    pub cancelled: bool,
}

pub struct Session {
    pub buf: Buffer,
    pub caret: Caret,
    pub parser: ParserBox,
    pub queue: VecDeque<Slot>,
    pub arrivals: Vec<Arrival>,
    pub consumed: usize,
    pub cleared: bool,
    pub ungated: bool,
    pub bytes_delivered: u64,
    pub resize_seen: bool,
    pub osc_byte_seen: bool,
    pub replies: Vec<u8>,
    pub scratch: Option<std::path::PathBuf>,
    pub recent: VecDeque<u8>,
}

#[derive(Debug)]
pub enum ByteResult {
    Ok(CallbackAction),
    Err(String),
}

pub enum EvResult<'a> {
    Byte(u8, &'a ByteResult),
    Poll(Result<bool, String>),
    Release(usize, Option<hooks::TicketState>),
    NextAction(Option<CallbackAction>),
    Picture(Option<(icy_engine::Size, usize)>),
    Clock,
}

fn h(acc: &mut u64, v: u64) {
    *acc = (*acc ^ v).wrapping_mul(0x0100_0000_01b3).rotate_left(13);
}

impl Session {
    fn sync_queue_after_byte(&mut self, tickets_before: usize, dcs_snapshot: Option<String>, pos_before: icy_engine::Position) {
        let tickets_now = hooks::gate_tickets();
        let new_gated = tickets_now.saturating_sub(tickets_before);
        let len_now = self.buf.sixel_threads.len();
        let expected = self.queue.len() + new_gated;
        // new gated arrivals
        let mut new_slots = Vec::new();
        for t in tickets_before..tickets_now {
            let ordinal = self.arrivals.len();
            self.arrivals.push(Arrival {
                ordinal,
                gated: Some(t),
                pos: pos_before,
                dcs: if new_gated == 1 { dcs_snapshot.clone() } else { None },
                released: false,
                finished: None,
                cancelled: false,
            });
            new_slots.push(Slot::Gated(ordinal, t));
        }
        if len_now > expected {
            // handles that registered no ticket
            self.ungated = true;
            for _ in 0..(len_now - expected) {
                let ordinal = self.arrivals.len();
                self.arrivals.push(Arrival {
                    ordinal,
                    gated: None,
                    pos: pos_before,
                    dcs: dcs_snapshot.clone(),
                    released: true,
                    finished: None,
                    cancelled: false,
                });
                new_slots.push(Slot::Free(ordinal));
            }
        }
        self.queue.extend(new_slots);
        if self.queue.len() > len_now {
            // a clear happened inside this byte: only the newest `len_now` handles survive
            self.cleared = true;
            while self.queue.len() > len_now {
                if let Some(s) = self.queue.pop_front() {
                    self.arrivals[s.ordinal()].cancelled = true;
                }
            }
        }
    }

    fn sync_queue_after_poll(&mut self) {
        let len_now = self.buf.sixel_threads.len();
        while self.queue.len() > len_now {
            self.queue.pop_front();
            self.consumed += 1;
        }
    }

    /// Release decode `ordinal` and wait until its thread has really finished.
    fn release(&mut self, ordinal: usize) -> Option<hooks::TicketState> {
        let Some(a) = self.arrivals.get_mut(ordinal) else {
            return None;
        };
        let mut state = None;
        if let Some(t) = a.gated {
            if !a.released {
                a.released = true;
                hooks::gate_release(t);
            }
            state = hooks::gate_wait_done(t, Duration::from_secs(20));
            a.finished = state;
        }
        // wait for the JoinHandle to report completion, if the handle is still queued
        if let Some(idx) = self.queue.iter().position(|s| s.ordinal() == ordinal) {
            let start = std::time::Instant::now();
            while let Some(hd) = self.buf.sixel_threads.get(idx) {
                if hd.is_finished() {
                    break;
                }
                if start.elapsed() > Duration::from_secs(20) {
                    break;
                }
                std::thread::yield_now();
            }
            if state.is_none() {
                state = Some(hooks::TicketState::Done);
                self.arrivals[ordinal].finished = state;
            }
        }
        state
    }

    fn release_all_and_wait(&mut self) {
        for o in 0..self.arrivals.len() {
            if self.arrivals[o].finished.is_none() {
                if let Some(t) = self.arrivals[o].gated {
                    hooks::gate_release(t);
                    let _ = hooks::gate_wait_done(t, Duration::from_secs(20));
                }
            }
        }
    }
}

pub fn classify_panic(trace: &Trace, recs: &[guard::PanicRecord], at_event: usize, stats: &mut RunStats) -> (Option<Violation>, String) {
    let prop = trace.property.as_str();
    // the record of the executor thread, or of a decode thread if that is all there is
    let rec = recs.iter().find(|r| r.thread_main).or_else(|| recs.first()).cloned().unwrap_or_default();
    if rec.special == "fuel" || rec.special == "depth" {
        stats.count(if rec.special == "fuel" { "ended_step_budget" } else { "ended_depth_budget" });
        let kind = if rec.special == "fuel" { "step_budget" } else { "depth_budget" };
        let v = match prop {
            "C03" => Some(Violation {
                property: "C03".into(),
                kind: kind.into(),
                class: format!("{kind}:{}", monitors::budget_class(trace, at_event)),
                detail: format!("{kind} exhausted at event {at_event} (value {})", rec.special_value),
                at_event,
            }),
            "C20" => Some(Violation {
                property: "C20".into(),
                kind: "stall".into(),
                class: format!("stall:{}", monitors::budget_class(trace, at_event)),
                detail: format!("{kind} exhausted: a command ran for more steps than the canvas bounds allow (value {})", rec.special_value),
                at_event,
            }),
            _ => None,
        };
        return (v, "budget".into());
    }
    stats.count("ended_panic");
    let f = if rec.function.is_empty() { rec.location.clone() } else { rec.function.clone() };
    let v = match prop {
        "C01" | "C20" | "C02" => Some(Violation {
            property: prop.into(),
            kind: "panic".into(),
            class: format!("panic:{f}"),
            detail: format!("panicked at {}: {}", rec.location, rec.message),
            at_event,
        }),
        _ => None,
    };
    (v, format!("panic:{f}"))
}

pub fn run_term(trace: &Trace) -> Outcome {
    let mut stats = RunStats::default();
    let cfg = &trace.cfg;
    let mut digest: u64 = 0xcbf2_9ce4_8422_2325;

    // per-run scratch directory for emulations that touch the file system
    let scratch = if cfg.emu == "rip" {
        Some(crate::fsbox::make_cache_dir(trace))
    } else {
        None
    };
    let Some(parser) = make_parser(trace, scratch.as_deref()) else {
        return Outcome {
            violation: None,
            ended: format!("harness_error:unknown emulation {}", cfg.emu),
            stats,
            digest: 0,
        };
    };

    let fuel = if cfg.fuel == 0 { DEFAULT_FUEL } else { cfg.fuel };
    let decode_fuel = if cfg.decode_fuel == 0 { DEFAULT_DECODE_FUEL } else { cfg.decode_fuel };
    let mem = if cfg.mem_mib == 0 { DEFAULT_MEM_MIB } else { cfg.mem_mib };

    let mut buf = Buffer::new((cfg.w.max(1), cfg.h.max(1)));
    buf.is_terminal_buffer = true;
    if cfg.emu == "viewdata" || cfg.emu == "mode7" {
        // fixed pages start with all rows present, as the engine's own fixtures do
        buf = Buffer::create((cfg.w.max(1), cfg.h.max(1)));
        buf.is_terminal_buffer = true;
    } else if cfg.prefilled {
        // a front end may just as well start from a buffer whose rows all exist
        buf = Buffer::create((cfg.w.max(1), cfg.h.max(1)));
        buf.is_terminal_buffer = true;
    } else {
        buf.layers[0].lines.clear();
    }
    if cfg.viewer {
        buf.is_terminal_buffer = false;
    }
    let mut s = Session {
        buf,
        caret: Caret::default(),
        parser,
        queue: VecDeque::new(),
        arrivals: Vec::new(),
        consumed: 0,
        cleared: false,
        ungated: false,
        bytes_delivered: 0,
        resize_seen: false,
        osc_byte_seen: false,
        replies: Vec::new(),
        scratch: scratch.clone(),
        recent: VecDeque::new(),
    };

    hooks::gate_activate(decode_fuel);
    hooks::clock_install(cfg.clock_ms);
    guard::take_panics();
    guard::mem_begin((mem as usize) << 20, (ONE_ALLOC_MIB as usize) << 20);

    // C03: the step bound is for the whole input, not per event
    let cumulative = trace.property == "C03";
    let mut fuel_left = fuel;
    let mut monitor: Box<dyn Monitor> = monitors::for_trace(trace, &s);
    let mut violation: Option<Violation> = None;
    let mut ended = String::from("completed");
    let mut max_fuel: u64 = 0;
    let mut total_fuel: u64 = 0;
    let mut max_depth: u32 = 0;

    'events: for (ei, ev) in trace.events.iter().enumerate() {
        stats.events += 1;
        match ev {
            Ev::Rx { .. } | Ev::Loopback | Ev::RxWide { .. } => {
                let chars: Vec<char> = match ev {
                    Ev::Rx { hex } => from_hex(hex).into_iter().map(|b| b as char).collect(),
                    Ev::RxWide { cps } => {
                        stats.add("wide_chars", cps.len() as u64);
                        cps.iter().filter_map(|c| char::from_u32(*c)).collect()
                    }
                    _ => {
                        let r = std::mem::take(&mut s.replies);
                        stats.add("loopback_bytes", r.len() as u64);
                        r.into_iter().map(|b| b as char).collect()
                    }
                };
                for ch in chars {
                    // monitors that recognise sequences look at bytes; a wide character is none of them
                    let b: u8 = if (ch as u32) < 256 { ch as u32 as u8 } else { b'?' };
                    guard::phase(1);
                    hooks::set_fuel(if cumulative { fuel_left } else { fuel }, DEFAULT_MAX_DEPTH);
                    let tickets_before = hooks::gate_tickets();
                    let pos_before = s.caret.get_position();
                    let dcs_snapshot = match (&s.parser, b) {
                        (ParserBox::Ansi(p), b'\\') => Some(p.parse_string.clone()),
                        _ => None,
                    };
                    if b == b']' {
                        s.osc_byte_seen = true;
                    }
                    let r = {
                        let Session { buf, caret, parser, .. } = &mut s;
                        catch_unwind(AssertUnwindSafe(|| parser.get().print_char(buf, 0, caret, ch)))
                    };
                    s.recent.push_back(b);
                    if s.recent.len() > 40 {
                        s.recent.pop_front();
                    }
                    if !cumulative && hooks::fuel_used() > fuel / 4 {
                        let ctx: String = s.recent.iter().map(|c| if c.is_ascii_graphic() { *c as char } else { '.' }).collect();
                        stats.max(&format!("fuel_hot_event:{}:{ctx}", cfg.emu), hooks::fuel_used());
                    }
                    max_fuel = max_fuel.max(hooks::fuel_used());
                    total_fuel += hooks::fuel_used();
                    fuel_left = fuel_left.saturating_sub(hooks::fuel_used());
                    max_depth = max_depth.max(hooks::depth_seen());
                    hooks::set_fuel(hooks::UNLIMITED, u32::MAX);
                    s.bytes_delivered += 1;
                    stats.bytes += 1;
                    let br = match r {
                        Ok(Ok(a)) => ByteResult::Ok(a),
                        Ok(Err(e)) => {
                            let msg = e.to_string();
                            ByteResult::Err(msg)
                        }
                        Err(_) => {
                            let recs = guard::take_panics();
                            let (v, e) = classify_panic(trace, &recs, ei, &mut stats);
                            violation = v;
                            ended = e;
                            break 'events;
                        }
                    };
                    s.sync_queue_after_byte(tickets_before, dcs_snapshot, pos_before);
                    match &br {
                        ByteResult::Ok(a) => {
                            h(&mut digest, action_code(a));
                            match a {
                                CallbackAction::ResizeTerminal(_, _) => s.resize_seen = true,
                                CallbackAction::SendString(str) => {
                                    stats.count("reply_sent");
                                    if s.replies.len() < 4096 {
                                        s.replies.extend(str.chars().map(|c| c as u32 as u8));
                                    }
                                }
                                _ => {}
                            }
                        }
                        ByteResult::Err(m) => {
                            stats.count("byte_err");
                            h(&mut digest, 0xEE ^ crate::rng::fnv(err_class(m)));
                        }
                    }
                    h(&mut digest, (s.caret.get_position().x as u32 as u64) << 32 | s.caret.get_position().y as u32 as u64);
                    if let Some(v) = monitor.after(&s, ei, &EvResult::Byte(b, &br), &mut stats) {
                        violation = Some(v);
                        ended = "violation".into();
                        break 'events;
                    }
                }
            }
            Ev::Release { ticket } => {
                guard::phase(1);
                let st = s.release(*ticket);
                // a decode thread that panicked has left a record
                let recs = guard::take_panics();
                if !recs.is_empty() {
                    stats.count("decode_thread_panicked");
                    if recs.iter().any(|r| r.special.is_empty()) {
                        let (v, e) = classify_panic(trace, &recs, ei, &mut stats);
                        if v.is_some() {
                            violation = v;
                            ended = e;
                            break 'events;
                        }
                    } else if trace.property == "C03" {
                        let (v, e) = classify_panic(trace, &recs, ei, &mut stats);
                        violation = v;
                        ended = e;
                        break 'events;
                    }
                }
                h(&mut digest, 0x5200 + *ticket as u64);
                if let Some(v) = monitor.after(&s, ei, &EvResult::Release(*ticket, st), &mut stats) {
                    violation = Some(v);
                    ended = "violation".into();
                    break 'events;
                }
            }
            Ev::Poll => {
                guard::phase(2);
                hooks::set_fuel(fuel, DEFAULT_MAX_DEPTH);
                let r = catch_unwind(AssertUnwindSafe(|| s.buf.update_sixel_threads()));
                hooks::set_fuel(hooks::UNLIMITED, u32::MAX);
                guard::phase(1);
                let pr = match r {
                    Ok(Ok(b)) => Ok(b),
                    Ok(Err(e)) => Err(e.to_string()),
                    Err(_) => {
                        let recs = guard::take_panics();
                        let (v, e) = classify_panic(trace, &recs, ei, &mut stats);
                        violation = v;
                        ended = e;
                        break 'events;
                    }
                };
                s.sync_queue_after_poll();
                h(&mut digest, 0x9000 + s.consumed as u64 * 4 + u64::from(pr.is_err()) * 2 + u64::from(pr == Ok(true)));
                if let Some(v) = monitor.after(&s, ei, &EvResult::Poll(pr), &mut stats) {
                    violation = Some(v);
                    ended = "violation".into();
                    break 'events;
                }
            }
            Ev::NextAction => {
                guard::phase(1);
                hooks::set_fuel(fuel, DEFAULT_MAX_DEPTH);
                let r = {
                    let Session { buf, caret, parser, .. } = &mut s;
                    catch_unwind(AssertUnwindSafe(|| parser.get().get_next_action(buf, caret, 0)))
                };
                max_fuel = max_fuel.max(hooks::fuel_used());
                hooks::set_fuel(hooks::UNLIMITED, u32::MAX);
                match r {
                    Ok(a) => {
                        h(&mut digest, 0x7700 + a.as_ref().map_or(0, action_code));
                        if let Some(v) = monitor.after(&s, ei, &EvResult::NextAction(a), &mut stats) {
                            violation = Some(v);
                            ended = "violation".into();
                            break 'events;
                        }
                    }
                    Err(_) => {
                        let recs = guard::take_panics();
                        let (v, e) = classify_panic(trace, &recs, ei, &mut stats);
                        violation = v;
                        ended = e;
                        break 'events;
                    }
                }
            }
            Ev::Picture => {
                guard::phase(1);
                hooks::set_fuel(fuel, DEFAULT_MAX_DEPTH);
                let r = {
                    let Session { parser, .. } = &mut s;
                    catch_unwind(AssertUnwindSafe(|| parser.get().get_picture_data()))
                };
                hooks::set_fuel(hooks::UNLIMITED, u32::MAX);
                match r {
                    Ok(p) => {
                        let p = p.map(|(sz, px)| (sz, px.len()));
                        h(&mut digest, 0x6600 + p.map_or(0, |(_, l)| l as u64));
                        if let Some(v) = monitor.after(&s, ei, &EvResult::Picture(p), &mut stats) {
                            violation = Some(v);
                            ended = "violation".into();
                            break 'events;
                        }
                    }
                    Err(_) => {
                        let recs = guard::take_panics();
                        let (v, e) = classify_panic(trace, &recs, ei, &mut stats);
                        violation = v;
                        ended = e;
                        break 'events;
                    }
                }
            }
            Ev::Clock { advance_ms } => {
                hooks::clock_set(hooks::clock_ms().saturating_add(*advance_ms));
                if let Some(dir) = &s.scratch {
                    crate::fsbox::apply_mtimes(trace, dir);
                }
                let _ = monitor.after(&s, ei, &EvResult::Clock, &mut stats);
            }
            _ => {
                ended = "harness_error:event not valid in a terminal session".into();
                break 'events;
            }
        }
    }

    guard::phase(1);
    if violation.is_none() && ended == "completed" {
        if let Some(v) = monitor.at_end(&s, trace.events.len(), &mut stats) {
            violation = Some(v);
            ended = "violation".into();
        }
    }

    // teardown: let every parked decode finish before the next scenario starts
    s.release_all_and_wait();
    let leftover = guard::take_panics();
    if !leftover.is_empty() {
        stats.add("decode_thread_panicked_at_teardown", leftover.len() as u64);
    }
    let (slept_n, slept_ms) = hooks::slept();
    stats.sim_ms += slept_ms;
    stats.add("virtual_sleeps", slept_n);
    hooks::gate_deactivate();
    hooks::clock_remove();
    if s.ungated {
        stats.count("ungated_runs");
    }
    // buffer content into the digest
    for y in 0..s.buf.get_height().min(400) {
        for x in 0..s.buf.get_width().min(200) {
            let c = s.buf.layers[0].get_char((x, y));
            h(&mut digest, c.ch as u64 ^ (u64::from(c.attribute.attr) << 32));
        }
    }
    let (w, hh) = (s.buf.get_width(), s.buf.get_height());
    drop(s);
    let (peak, largest) = guard::mem_end();
    if let Some(dir) = scratch {
        let _ = std::fs::remove_dir_all(dir);
    }
    stats.max("fuel_per_event", max_fuel);
    stats.max("fuel_per_run", total_fuel);
    if cumulative && fuel > 0 {
        stats.max("fuel_permille_of_bound", total_fuel.saturating_mul(1000) / fuel);
        if total_fuel > fuel / 2 {
            stats.count("probe_fuel_above_half_of_bound");
        }
        if total_fuel > fuel / 4 {
            stats.max(&format!("fuel_permille_hot:{}:{}x{}", monitors::budget_class(trace, 0), cfg.w, cfg.h), total_fuel.saturating_mul(1000) / fuel);
        }
    }
    stats.max("print_char_depth", u64::from(max_depth));
    stats.max("heap_peak_bytes", peak as u64);
    stats.max("largest_alloc_bytes", largest as u64);
    stats.max("buffer_height", hh.max(0) as u64);
    stats.max("buffer_width", w.max(0) as u64);
    // simulated line time: 10 bits per byte at 9600 baud
    stats.sim_ms += stats.bytes * 10_000 / 9600;
    guard::phase(0);
    Outcome {
        violation,
        ended,
        stats,
        digest,
    }
}

pub fn action_code(a: &CallbackAction) -> u64 {
    match a {
        CallbackAction::Update => 1,
        CallbackAction::NoUpdate => 2,
        CallbackAction::Beep => 3,
        CallbackAction::SendString(s) => 4 + (crate::rng::fnv(s) << 8),
        CallbackAction::PlayMusic(_) => 5,
        CallbackAction::ChangeBaudEmulation(_) => 6,
        CallbackAction::ResizeTerminal(a, b) => 7 + ((*a as u64) << 8) + ((*b as u64) << 24),
        CallbackAction::Pause(p) => 8 + (u64::from(*p) << 8),
    }
}

/// First words of an error message: the variant, not the payload.
pub fn err_class(m: &str) -> &str {
    let end = m.find([':', '\'', '"', '\x1b']).unwrap_or(m.len());
    let m = &m[..end];
    let mut n = 0;
    let mut last = m.len();
    for (i, c) in m.char_indices() {
        if c == ' ' {
            n += 1;
            if n == 3 {
                last = i;
                break;
            }
        }
    }
    &m[..last]
}
