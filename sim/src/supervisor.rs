//! Supervisor: starts worker processes, hands out run ranges, attributes worker deaths to the
//! in-flight run, confirms, minimises, writes replay files and evidence, and prints the verdict lines.

use crate::scenario::{self, Tier};
use crate::trace::{Outcome, Trace, Violation};
use crate::worker::{Agg, Cmd, Reply};
use serde::{Deserialize, Serialize};
use std::collections::{BTreeMap, VecDeque};
use std::io::{BufRead, BufReader, Write};
use std::process::{Child, ChildStdin, ChildStdout, Command, Stdio};
use std::sync::{Arc, Mutex};
use std::time::Instant;

pub const VERIF_DIR: &str = "/verif";

#[derive(Debug, Clone)]
pub struct Death {
    pub run: Option<u64>,
    pub reason: String,
}

pub struct Worker {
    child: Child,
    stdin: ChildStdin,
    stdout: BufReader<ChildStdout>,
    status_path: String,
}

static WORKER_SEQ: std::sync::atomic::AtomicU64 = std::sync::atomic::AtomicU64::new(0);

pub fn status_dir() -> std::path::PathBuf {
    let d = crate::fsbox::scratch_root().join("status");
    let _ = std::fs::create_dir_all(&d);
    d
}

impl Worker {
    pub fn spawn(prop: &str, tier: Tier, seed: u64) -> std::io::Result<Worker> {
        let n = WORKER_SEQ.fetch_add(1, std::sync::atomic::Ordering::Relaxed);
        let status_path = status_dir().join(format!("w{n}")).to_string_lossy().to_string();
        let exe = std::env::current_exe()?;
        let mut child = Command::new(exe)
            .args(["worker", "--prop", prop, "--tier", tier.name(), "--seed", &seed.to_string(), "--status", &status_path])
            .env("VERIF_SCRATCH_ROOT", crate::fsbox::scratch_root())
            .env("LC_ALL", "C")
            .env("LANG", "C")
            .env("LANGUAGE", "C")
            .env("RUST_BACKTRACE", "0")
            .stdin(Stdio::piped())
            .stdout(Stdio::piped())
            .stderr(if std::env::var("VERIF_WORKER_STDERR").is_ok() { Stdio::inherit() } else { Stdio::null() })
            .spawn()?;
        let stdin = child.stdin.take().unwrap();
        let stdout = BufReader::new(child.stdout.take().unwrap());
        Ok(Worker {
            child,
            stdin,
            stdout,
            status_path,
        })
    }

    fn death(&mut self) -> Death {
        let status = self.child.wait().ok();
        let text = std::fs::read_to_string(&self.status_path).unwrap_or_default();
        let mut run = None;
        let mut reason = String::new();
        for (i, l) in text.lines().enumerate() {
            if i == 0 {
                if let Some(r) = l.strip_prefix("RUN") {
                    run = r.trim().parse::<u64>().ok().filter(|r| *r != u64::MAX);
                }
            }
            let l = l.trim();
            if l.starts_with("ALLOC") {
                let mut it = l.split_whitespace();
                it.next();
                let size = it.next().unwrap_or("?");
                reason = format!("alloc_budget(request={size})");
            } else if l.starts_with("WATCHDOG") {
                reason = "watchdog".into();
            } else if l.starts_with("POLL_BLOCKED") {
                reason = "poll_blocked".into();
            }
        }
        if reason.is_empty() {
            use std::os::unix::process::ExitStatusExt;
            reason = match status {
                Some(s) => match (s.signal(), s.code()) {
                    (Some(libc::SIGSEGV), _) => "stack_overflow_or_segv".into(),
                    (Some(libc::SIGABRT), _) => "abort".into(),
                    (Some(libc::SIGKILL), _) => "killed".into(),
                    (Some(sig), _) => format!("signal_{sig}"),
                    (None, Some(c)) => format!("exit_{c}"),
                    _ => "unknown".into(),
                },
                None => "unknown".into(),
            };
        }
        Death { run, reason }
    }

    pub fn request(&mut self, cmd: &Cmd) -> Result<Reply, Death> {
        let line = serde_json::to_string(cmd).unwrap();
        if writeln!(self.stdin, "{line}").is_err() || self.stdin.flush().is_err() {
            return Err(self.death());
        }
        let mut buf = String::new();
        match self.stdout.read_line(&mut buf) {
            Ok(0) | Err(_) => Err(self.death()),
            Ok(_) => match serde_json::from_str::<Reply>(&buf) {
                Ok(r) => Ok(r),
                Err(e) => Err(Death {
                    run: None,
                    reason: format!("protocol_error: {e}: {}", buf.chars().take(200).collect::<String>()),
                }),
            },
        }
    }

    pub fn quit(mut self) {
        let _ = writeln!(self.stdin, "{}", serde_json::to_string(&Cmd::Quit).unwrap());
        let _ = self.stdin.flush();
        drop(self.stdin);
        let _ = self.child.wait();
        let _ = std::fs::remove_file(&self.status_path);
    }
}

/// Execute one trace in a fresh worker process.
pub fn solo(prop: &str, tier: Tier, seed: u64, trace: &Trace) -> Result<Outcome, Death> {
    let mut w = Worker::spawn(prop, tier, seed).map_err(|e| Death {
        run: None,
        reason: format!("spawn_failed: {e}"),
    })?;
    let r = w.request(&Cmd::Trace { trace: trace.clone() });
    match r {
        Ok(Reply::Outcome { outcome }) => {
            w.quit();
            Ok(outcome)
        }
        Ok(_) => {
            w.quit();
            Err(Death {
                run: None,
                reason: "protocol_error: unexpected reply".into(),
            })
        }
        Err(d) => Err(d),
    }
}

#[derive(Serialize, Deserialize, Clone, Debug)]
pub struct KnownFinding {
    pub property: String,
    pub class: String,
    pub what: String,
    pub witness: String,
    /// If set, the finding is identified by a property of the input, not by its class: it covers the budget
    /// violations (any class) of exactly those runs whose input has that property, and nothing else.
    #[serde(default, skip_serializing_if = "Option::is_none")]
    pub predicate: Option<String>,
}

/// `sauce_height_gt_1000`: a loader run whose file ends in a SAUCE record declaring more than 1000 rows.
pub fn input_predicate(name: &str, trace: &Trace) -> bool {
    match name {
        "sauce_height_gt_1000" => trace.events.iter().any(|ev| {
            if let crate::trace::Ev::Load { hex, .. } = ev {
                let b = crate::trace::from_hex(hex);
                b.len() >= 128 && &b[b.len() - 128..b.len() - 123] == b"SAUCE" && u16::from_le_bytes([b[b.len() - 128 + 98], b[b.len() - 128 + 99]]) > 1000
            } else {
                false
            }
        }),
        _ => false,
    }
}

fn is_budget_class(class: &str) -> bool {
    ["watchdog:", "alloc_budget:", "step_budget:", "depth_budget:", "abort:", "stall"].iter().any(|p| class.starts_with(p))
}

#[derive(Serialize, Deserialize, Clone, Debug, Default)]
pub struct KnownFile {
    #[serde(default)]
    pub findings: Vec<KnownFinding>,
    #[serde(default)]
    pub fixed: Vec<String>,
}

pub fn load_known() -> KnownFile {
    // triage aid: report everything, as if nothing were pinned
    if std::env::var("VERIF_IGNORE_KNOWN").is_ok() {
        return KnownFile::default();
    }
    let p = format!("{VERIF_DIR}/known_findings.json");
    match std::fs::read_to_string(&p) {
        Ok(s) => serde_json::from_str(&s).unwrap_or_default(),
        Err(_) => KnownFile::default(),
    }
}

/// The verdict of executing a trace in a fresh process: the class key of what went wrong, if anything.
pub fn verdict_of(prop: &str, tier: Tier, seed: u64, trace: &Trace) -> (Option<Violation>, String) {
    match solo(prop, tier, seed, trace) {
        Ok(o) => (o.violation, o.ended),
        Err(d) => (death_violation(&trace.property, &d, trace), format!("death:{}", d.reason)),
    }
}

/// Which property, if any, a worker death violates.
pub fn death_violation(prop: &str, d: &Death, trace: &Trace) -> Option<Violation> {
    let reason_kind = d.reason.split('(').next().unwrap_or("").to_string();
    let target = crate::monitors::budget_class(trace, 0);
    let mk = |kind: &str, class: String| {
        Some(Violation {
            property: prop.to_string(),
            kind: kind.to_string(),
            class,
            detail: format!("worker process died: {}", d.reason),
            at_event: 0,
        })
    };
    match (prop, reason_kind.as_str()) {
        ("C14", "poll_blocked") => mk("poll_blocked", "poll_blocked".into()),
        ("C03", "alloc_budget") => mk("alloc_budget", format!("alloc_budget:{target}")),
        ("C03", "watchdog") => mk("watchdog", format!("watchdog:{target}")),
        ("C03", "stack_overflow_or_segv") => mk("stack_overflow", format!("stack_overflow:{target}")),
        ("C03", "abort") => mk("abort", format!("abort:{target}")),
        ("C20", "watchdog") => mk("stall", format!("stall_watchdog:{target}")),
        // memory that follows coordinate values instead of the canvas ends in an abort on a real machine
        ("C20", "alloc_budget") => mk("alloc_budget", format!("alloc_budget:{target}")),
        ("C01" | "C02" | "C20", "stack_overflow_or_segv") => mk("abort", "abort:stack_overflow_or_segv".into()),
        ("C01" | "C02" | "C20", "abort") => mk("abort", "abort:abort".into()),
        _ => None,
    }
}

pub struct CheckResult {
    pub exit: i32,
}

fn write_json(path: &str, v: &serde_json::Value) -> std::io::Result<()> {
    if let Some(p) = std::path::Path::new(path).parent() {
        std::fs::create_dir_all(p)?;
    }
    let tmp = format!("{path}.tmp");
    std::fs::write(&tmp, serde_json::to_string_pretty(v).unwrap())?;
    std::fs::rename(&tmp, path)
}

pub fn n_workers() -> usize {
    std::env::var("VERIF_WORKERS")
        .ok()
        .and_then(|s| s.parse().ok())
        .unwrap_or_else(|| std::thread::available_parallelism().map(|n| n.get()).unwrap_or(4).min(16))
        .max(1)
}

pub const MAX_DEATHS_PER_SWEEP: u64 = 2400;

pub struct Sweep {
    pub agg: Agg,
    pub deaths: Vec<Death>,
    pub harness_error: Option<String>,
}

/// The seeded search: every run index in 0..runs exactly once, on `workers` processes.
pub fn sweep(prop: &str, tier: Tier, seed: u64, runs: u64, workers: usize) -> Sweep {
    let chunk: u64 = (runs / (workers as u64 * 24)).clamp(16, 4096);
    let mut q = VecDeque::new();
    let mut a = 0;
    while a < runs {
        let b = (a + chunk).min(runs);
        q.push_back((a, b));
        a = b;
    }
    let queue = Arc::new(Mutex::new(q));
    let death_count = Arc::new(std::sync::atomic::AtomicU64::new(0));
    let result = Arc::new(Mutex::new((Agg::default(), Vec::<Death>::new(), None::<String>)));
    let mut handles = Vec::new();
    for _ in 0..workers {
        let queue = queue.clone();
        let result = result.clone();
        let death_count = death_count.clone();
        let prop = prop.to_string();
        handles.push(std::thread::spawn(move || {
            let mut local = Agg::default();
            let mut deaths = Vec::new();
            let mut w: Option<Worker> = None;
            let mut respawns = 0;
            loop {
                // a tree on which workers keep dying is not searched to the end: the verdict is already there
                if death_count.load(std::sync::atomic::Ordering::Relaxed) >= MAX_DEATHS_PER_SWEEP {
                    result.lock().unwrap().0.counters.insert("sweep_cut_short_after_worker_deaths".into(), 1);
                    break;
                }
                let job = queue.lock().unwrap().pop_front();
                let Some((from, to)) = job else { break };
                if w.is_none() {
                    match Worker::spawn(&prop, tier, seed) {
                        Ok(x) => w = Some(x),
                        Err(e) => {
                            result.lock().unwrap().2 = Some(format!("cannot spawn worker: {e}"));
                            break;
                        }
                    }
                }
                let r = w.as_mut().unwrap().request(&Cmd::Range { from, to });
                match r {
                    Ok(Reply::Range { agg, .. }) => local.merge(agg),
                    Ok(_) => {
                        result.lock().unwrap().2 = Some("protocol error: unexpected reply to range".into());
                        break;
                    }
                    Err(d) => {
                        w = None;
                        respawns += 1;
                        if d.reason.starts_with("protocol_error") || d.reason.starts_with("spawn_failed") {
                            result.lock().unwrap().2 = Some(d.reason.clone());
                            break;
                        }
                        match d.run {
                            Some(r) if r >= from && r < to => {
                                let mut q = queue.lock().unwrap();
                                if r + 1 < to {
                                    q.push_front((r + 1, to));
                                }
                                if from < r {
                                    q.push_front((from, r));
                                }
                                drop(q);
                                local.counters.entry("worker_deaths".into()).and_modify(|v| *v += 1).or_insert(1);
                                // only slow deaths (each costs seconds of wall clock) count towards the cut-off
                                let slow = d.reason.starts_with("watchdog") || d.reason.starts_with("poll_blocked");
                                death_count.fetch_add(if slow { 100 } else { 1 }, std::sync::atomic::Ordering::Relaxed);
                                deaths.push(d);
                            }
                            _ => {
                                result.lock().unwrap().2 = Some(format!("worker died outside a run: {}", d.reason));
                                break;
                            }
                        }
                        if respawns > 2000 {
                            result.lock().unwrap().2 = Some("too many worker deaths".into());
                            break;
                        }
                    }
                }
            }
            if let Some(w) = w {
                w.quit();
            }
            let mut g = result.lock().unwrap();
            g.0.merge(local);
            g.1.extend(deaths);
        }));
    }
    for h in handles {
        let _ = h.join();
    }
    let (mut agg, mut deaths, harness_error) = Arc::try_unwrap(result).ok().unwrap().into_inner().unwrap();
    agg.samples.sort_by_key(|s| s.0);
    agg.violations.sort_by_key(|v| v.0);
    deaths.sort_by_key(|d| d.run);
    Sweep { agg, deaths, harness_error }
}

fn hash_name(t: &Trace) -> String {
    format!("{:016x}", t.digest())
}

fn sanitize(s: &str) -> String {
    s.chars().map(|c| if c.is_ascii_alphanumeric() || c == '_' || c == '-' { c } else { '_' }).collect::<String>().chars().take(80).collect()
}

pub fn run_check(prop: &str, tier: Tier, seed: u64) -> i32 {
    let t0 = Instant::now();
    println!("VERIF_SEED={seed} property={prop} tier={}", tier.name());
    if !scenario::CLAIMED.contains(&prop) {
        eprintln!("property {prop} is not claimed by this machinery");
        return 2;
    }
    // replay files of earlier runs of this property are stale now
    if let Ok(rd) = std::fs::read_dir(format!("{VERIF_DIR}/replays")) {
        for e in rd.flatten() {
            let n = e.file_name().to_string_lossy().to_string();
            if n.starts_with(&format!("{prop}-")) && n.ends_with(".json") {
                let _ = std::fs::remove_file(e.path());
            }
        }
    }
    let workers = n_workers();
    let runs = scenario::runs_for(prop, tier);
    let known = load_known();
    let mut exit = 0;
    let mut violation_lines: Vec<String> = Vec::new();
    let mut known_lines: Vec<String> = Vec::new();
    let mut known_classes: Vec<String> = Vec::new();

    // 1. pinned witnesses of known findings
    let predicates: Vec<String> = known.findings.iter().filter(|k| k.property == prop).filter_map(|k| k.predicate.clone()).collect();
    let covered_by_predicate = |class: &str, trace: &Trace| is_budget_class(class) && predicates.iter().any(|p| input_predicate(p, trace));
    for k in known.findings.iter().filter(|k| k.property == prop) {
        if k.predicate.is_none() {
            known_classes.push(k.class.clone());
        }
        let path = format!("{VERIF_DIR}/{}", k.witness);
        let Ok(text) = std::fs::read_to_string(&path) else {
            eprintln!("harness error: witness {path} missing");
            return 2;
        };
        let Ok(trace) = serde_json::from_str::<Trace>(&text) else {
            eprintln!("harness error: witness {path} does not parse");
            return 2;
        };
        let (v, _) = verdict_of(prop, tier, seed, &trace);
        if let Some(v) = v {
            if v.class == k.class {
                known_lines.push(format!("KNOWN-FINDING: property={prop} {} [{}]", k.what, k.class));
            } else {
                // the witness now fails differently: that is a new violation
                let rp = format!("{VERIF_DIR}/{}", k.witness);
                violation_lines.push(format!("VIOLATION property={prop} replay={rp}"));
                eprintln!("witness {} now fails as {} instead of {}", k.witness, v.class, k.class);
                exit = 1;
            }
        }
    }
    for l in &known_lines {
        println!("{l}");
    }

    // 2. seeded search
    let sw = sweep(prop, tier, seed, runs, workers);
    if let Some(e) = &sw.harness_error {
        eprintln!("harness error: {e}");
        crate::fsbox::cleanup_root();
        return 2;
    }
    let mut agg = sw.agg;
    if agg.replays_diverged > 0 {
        eprintln!("harness error: {} sampled runs did not replay identically (runs {:?})", agg.replays_diverged, &agg.diverged_runs[..agg.diverged_runs.len().min(8)]);
        crate::fsbox::cleanup_root();
        return 2;
    }
    if !agg.harness_errors.is_empty() {
        eprintln!("harness error: {:?}", &agg.harness_errors[..agg.harness_errors.len().min(4)]);
        crate::fsbox::cleanup_root();
        return 2;
    }

    // 3. violations found in-process, grouped by class
    let mut by_class: BTreeMap<String, Vec<(u64, Violation)>> = BTreeMap::new();
    for (run, v) in &agg.violations {
        by_class.entry(v.class.clone()).or_default().push((*run, v.clone()));
    }
    let mut suppressed_known = 0u64;
    let mut suppressed_by_class: BTreeMap<String, u64> = BTreeMap::new();
    let mut reported = Vec::new();
    let max_report = 12;
    // A pinned C08 class stands for "this undo record is wrong when one of the quarantined triggers is in the
    // history". The same class reached by a history without any of them is a different violation and is reported.
    let mut narrowed: BTreeMap<String, Vec<(u64, Violation)>> = BTreeMap::new();
    if !predicates.is_empty() {
        // findings identified by a property of the input: runs that have it are covered, whatever their class
        for (class, list) in &by_class {
            if is_budget_class(class) {
                let open: Vec<(u64, Violation)> = list.iter().filter(|(run, _)| !covered_by_predicate(class, &scenario::generate(prop, tier, seed, *run))).cloned().collect();
                if open.len() != list.len() {
                    let hidden = (list.len() - open.len()) as u64;
                    suppressed_known += hidden;
                    *suppressed_by_class.entry(format!("{class} (input predicate)")).or_insert(0) += hidden;
                    narrowed.insert(class.clone(), open);
                }
            }
        }
    }
    if prop == "C08" {
        for (class, list) in &by_class {
            if known_classes.contains(class) {
                let open: Vec<(u64, Violation)> = list.iter().filter(|(run, _)| !crate::edit::has_quarantined_trigger(&scenario::generate(prop, tier, seed, *run))).cloned().collect();
                if !open.is_empty() {
                    narrowed.insert(class.clone(), open);
                }
            }
        }
    }
    for (class, list) in &by_class {
        let list = if let Some(open) = narrowed.get(class) {
            if open.is_empty() {
                continue;
            }
            let hidden = (list.len() - open.len()) as u64;
            if hidden > 0 && prop == "C08" {
                suppressed_known += hidden;
                suppressed_by_class.insert(class.clone(), hidden);
            }
            open
        } else if known_classes.contains(class) {
            suppressed_known += list.len() as u64;
            suppressed_by_class.insert(class.clone(), list.len() as u64);
            continue;
        } else {
            list
        };
        if reported.len() >= max_report {
            continue;
        }
        // confirm in a fresh process; an engine with undefined behaviour in it (an unchecked conversion fed bad
        // data) need not behave the same way twice, so several occurrences of the class are tried
        let mut pick = None;
        for (run, v) in list.iter().take(8) {
            let trace = scenario::generate(prop, tier, seed, *run);
            let (v2, _) = verdict_of(prop, tier, seed, &trace);
            if v2.as_ref().map(|x| &x.class == class).unwrap_or(false) {
                pick = Some((run, v, trace, v2));
                break;
            }
        }
        let Some((run, v, trace, v2)) = pick else {
            if list.len() >= 3 {
                // seen in at least three different runs of this sweep, never alone: reported, with the first
                // run's unminimised trace, and marked as not reproducing
                let (run, v) = &list[0];
                let trace = scenario::generate(prop, tier, seed, *run);
                let path = format!("{VERIF_DIR}/replays/{prop}-{}-{}.json", sanitize(class), &hash_name(&trace)[..8]);
                let mut doc = serde_json::to_value(&trace).unwrap();
                doc["violation"] = serde_json::to_value(v).unwrap();
                doc["found_at"] = serde_json::json!({"seed": seed, "run": run, "tier": tier.name(), "occurrences_in_this_sweep": list.len(), "reproduces_in_a_fresh_process": false});
                if write_json(&path, &doc).is_err() {
                    eprintln!("harness error: cannot write {path}");
                    return 2;
                }
                println!("violation class {class}: {} ({} runs, none of 8 reproduced in a fresh process: the engine does not behave the same way twice on these inputs); first run {run}: {}", v.kind, list.len(), v.detail);
                violation_lines.push(format!("VIOLATION property={prop} replay={path}"));
                reported.push(class.clone());
                exit = 1;
                continue;
            }
            eprintln!("harness error: violation {class} of run {} did not reproduce in a fresh process", list[0].0);
            crate::fsbox::cleanup_root();
            return 2;
        };
        // minimise in a worker; fall back to the unminimised trace if that worker dies
        let mut min = trace.clone();
        if let Ok(mut w) = Worker::spawn(prop, tier, seed) {
            match w.request(&Cmd::Minimise {
                trace: trace.clone(),
                class: class.clone(),
            }) {
                Ok(Reply::Minimised { trace: m, .. }) => {
                    min = m;
                    w.quit();
                }
                Ok(_) => w.quit(),
                Err(_) => {}
            }
        }
        // the minimised trace must fail the same way in a fresh process
        let (v3, _) = verdict_of(prop, tier, seed, &min);
        let (final_trace, final_v) = if v3.as_ref().map(|x| &x.class == class).unwrap_or(false) {
            (min, v3.unwrap())
        } else {
            (trace, v2.unwrap())
        };
        let path = format!("{VERIF_DIR}/replays/{prop}-{}-{}.json", sanitize(class), &hash_name(&final_trace)[..8]);
        let mut doc = serde_json::to_value(&final_trace).unwrap();
        doc["violation"] = serde_json::to_value(&final_v).unwrap();
        doc["found_at"] = serde_json::json!({"seed": seed, "run": run, "tier": tier.name(), "occurrences_in_this_sweep": list.len()});
        if write_json(&path, &doc).is_err() {
            eprintln!("harness error: cannot write {path}");
            return 2;
        }
        println!("violation class {class}: {} ({} runs); first run {run}: {}", final_v.kind, list.len(), v.detail);
        violation_lines.push(format!("VIOLATION property={prop} replay={path}"));
        reported.push(class.clone());
        exit = 1;
    }

    // 4. worker deaths
    let mut death_classes: BTreeMap<String, u64> = BTreeMap::new();
    let mut unconfirmed = 0u64;
    let mut other_property_deaths = 0u64;
    let mut confirmations = 0u64;
    for d in &sw.deaths {
        let Some(run) = d.run else { continue };
        let trace = scenario::generate(prop, tier, seed, run);
        let first = death_violation(prop, d, &trace);
        let Some(first) = first else {
            if std::env::var("VERIF_SHOW_DEATHS").is_ok() {
                eprintln!("death not attributed to {prop}: run {run} reason {}", d.reason);
            }
            other_property_deaths += 1;
            *agg.counters.entry(format!("death_not_this_property_{}", d.reason.split('(').next().unwrap_or("?"))).or_insert(0) += 1;
            continue;
        };
        if known_classes.contains(&first.class) || covered_by_predicate(&first.class, &trace) {
            suppressed_known += 1;
            *suppressed_by_class.entry(format!("{} (death)", first.class)).or_insert(0) += 1;
            continue;
        }
        if death_classes.contains_key(&first.class) {
            *death_classes.get_mut(&first.class).unwrap() += 1;
            continue;
        }
        // confirm by solo replay
        if confirmations >= 8 {
            unconfirmed += 1;
            continue;
        }
        confirmations += 1;
        let (v2, _) = verdict_of(prop, tier, seed, &trace);
        if v2.as_ref().map(|x| x.class == first.class).unwrap_or(false) {
            death_classes.insert(first.class.clone(), 1);
            if reported.len() >= max_report {
                continue;
            }
            let class = first.class.clone();
            // supervisor-driven minimisation: one fresh worker per candidate
            let slow = first.kind == "watchdog" || first.kind == "poll_blocked" || first.kind == "stall";
            let budget = if slow { 24 } else { 300 };
            let min = crate::minimize::minimise_with_budget(
                &trace,
                &mut |t: &Trace| verdict_of(prop, tier, seed, t).0.map(|x| x.class == class).unwrap_or(false),
                budget,
            );
            let (v3, _) = verdict_of(prop, tier, seed, &min);
            let (final_trace, final_v) = if v3.as_ref().map(|x| x.class == class).unwrap_or(false) {
                (min, v3.unwrap())
            } else {
                (trace, v2.unwrap())
            };
            let path = format!("{VERIF_DIR}/replays/{prop}-{}-{}.json", sanitize(&class), &hash_name(&final_trace)[..8]);
            let mut doc = serde_json::to_value(&final_trace).unwrap();
            doc["violation"] = serde_json::to_value(&final_v).unwrap();
            doc["found_at"] = serde_json::json!({"seed": seed, "run": run, "tier": tier.name()});
            if write_json(&path, &doc).is_err() {
                eprintln!("harness error: cannot write {path}");
                return 2;
            }
            println!("violation class {class}: {}", final_v.detail);
            violation_lines.push(format!("VIOLATION property={prop} replay={path}"));
            reported.push(class);
            exit = 1;
        } else {
            unconfirmed += 1;
        }
    }

    for l in &violation_lines {
        println!("{l}");
    }

    // 5. evidence
    let wall = t0.elapsed().as_secs_f64();
    let mut ev = crate::evidence::build(prop, tier, seed, runs, workers, &agg, wall, &known_lines, &violation_lines, suppressed_known, unconfirmed, other_property_deaths, &death_classes);
    ev["coverage"]["known_finding_occurrences_by_class"] = serde_json::to_value(&suppressed_by_class).unwrap_or_default();
    let path = format!("{VERIF_DIR}/evidence/{prop}.json");
    if let Err(e) = write_json(&path, &ev) {
        eprintln!("harness error: cannot write evidence: {e}");
        crate::fsbox::cleanup_root();
        return 2;
    }
    println!(
        "{prop} {}: {} runs, {} events, {} bytes, {:.1}s wall, {:.0} runs/h, digest {:016x}, violations {}",
        tier.name(),
        agg.runs,
        agg.events,
        agg.bytes,
        wall,
        agg.runs as f64 / wall * 3600.0,
        agg.digest,
        violation_lines.len()
    );
    crate::fsbox::cleanup_root();
    exit
}

/// `sim replay <file>`: run one trace in a fresh process and print what it does.
pub fn run_replay(path: &str) -> i32 {
    let Ok(text) = std::fs::read_to_string(path) else {
        eprintln!("cannot read {path}");
        return 2;
    };
    let Ok(trace) = serde_json::from_str::<Trace>(&text) else {
        eprintln!("{path} is not a trace");
        return 2;
    };
    let prop = trace.property.clone();
    let (v, ended) = verdict_of(&prop, Tier::Quick, 0, &trace);
    crate::fsbox::cleanup_root();
    match v {
        Some(v) => {
            println!("replay of {path}: {} [{}] at event {}: {}", v.kind, v.class, v.at_event, v.detail);
            println!("VIOLATION property={} replay={path}", v.property);
            1
        }
        None => {
            println!("replay of {path}: no violation (ended: {ended})");
            0
        }
    }
}


/// Determinism self-check: every run index executed in two separate sets of processes
/// (one worker, then many); the per-run digests must agree.
pub fn run_selfcheck(props: &[String], runs: u64, seed: u64) -> i32 {
    std::env::set_var("VERIF_PER_RUN", "1");
    let mut bad = 0;
    for prop in props {
        let a = sweep(prop, Tier::Quick, seed, runs, 1);
        let b = sweep(prop, Tier::Quick, seed, runs, n_workers());
        if a.harness_error.is_some() || b.harness_error.is_some() {
            eprintln!("harness error in selfcheck of {prop}: {:?} {:?}", a.harness_error, b.harness_error);
            return 2;
        }
        let ma: BTreeMap<u64, u64> = a.agg.per_run.iter().copied().collect();
        let mb: BTreeMap<u64, u64> = b.agg.per_run.iter().copied().collect();
        let mut diverged: Vec<u64> = ma.iter().filter(|(k, v)| mb.get(k).map(|w| w != *v).unwrap_or(false)).map(|(k, _)| *k).collect();
        diverged.sort_unstable();
        let within = a.agg.replays_diverged + b.agg.replays_diverged;
        println!(
            "selfcheck {prop}: {} runs twice (1 worker vs {} workers): {} diverged across processes, {} diverged within a process; sweep digests {:016x} / {:016x}",
            ma.len(),
            n_workers(),
            diverged.len(),
            within,
            a.agg.digest,
            b.agg.digest
        );
        if !diverged.is_empty() {
            println!("  first diverging run indices: {:?}", &diverged[..diverged.len().min(12)]);
            bad += 1;
        }
        if within > 0 {
            bad += 1;
        }
    }
    crate::fsbox::cleanup_root();
    i32::from(bad > 0) * 2
}
