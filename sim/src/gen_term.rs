//! Host workload for the text terminals (C01, C09, C10, C16, C03 control functions) and the
//! fault-injecting line between host and terminal.

use crate::rng::Rng;
use crate::trace::{Ev, Trace};

pub const EMULATIONS: [&str; 10] = ["ansi", "avatar", "pcboard", "ctrla", "renegade", "petscii", "atascii", "viewdata", "mode7", "ascii"];
pub const MUSIC: [&str; 4] = ["Off", "Conflicting", "Banana", "Both"];

#[derive(Clone, Copy, PartialEq, Debug)]
pub enum Profile {
    /// everything (C01)
    Crash,
    /// cursor motion, tabs, margins, origin mode, save/restore, resets, scrolling (C09)
    Cursor,
    /// fills, numeric character prints, titles/strings (C10)
    Unicode,
    /// colour selection and palette changes, never ']' (C16)
    Palette,
    /// extreme magnitudes on every numeric slot (C03)
    Magnitude,
}

/// One host token: bytes plus whether a fault landing inside hits in-flight parser state.
#[derive(Clone, Debug)]
pub struct Piece {
    pub bytes: Vec<u8>,
    pub fragile: bool,
    pub sixel: bool,
}

fn piece(bytes: Vec<u8>, fragile: bool) -> Piece {
    Piece { bytes, fragile, sixel: false }
}

pub struct Host<'a> {
    pub rng: &'a mut Rng,
    pub w: i32,
    pub h: i32,
    pub profile: Profile,
    pub emu: &'static str,
    pub music: &'static str,
    pub allow_resize: bool,
    pub allow_osc: bool,
    pub big: &'a [i64],
}

pub const C03_MAGNITUDES: [i64; 3] = [65_536, 1_000_000, 2_147_483_647];

impl Host<'_> {
    pub fn param(&mut self, vertical: bool) -> String {
        let size = if vertical { self.h } else { self.w } as i64;
        let r = self.rng.below(if self.big.is_empty() { 12 } else { 16 });
        let v: i64 = match r {
            0 => return String::new(),
            1 => 0,
            2 => 1,
            3 => 2,
            4 => size / 2,
            5 => size - 1,
            6 => size,
            7 => size + 1,
            8 => 255,
            9 => 9999,
            10 => self.rng.range(0, size.max(1)),
            11 => self.rng.range(0, 300),
            _ => *self.rng.pick(self.big),
        };
        v.max(0).to_string()
    }

    fn params(&mut self, n: usize) -> String {
        let mut s = String::new();
        for i in 0..n {
            if i > 0 {
                s.push(';');
            }
            let p = self.param(i % 2 == 0);
            s.push_str(&p);
        }
        s
    }

    fn printable(&mut self) -> Vec<u8> {
        let cap = match self.rng.below(4) {
            0 => 2,
            1 => 10,
            2 => 40,
            _ => (self.w as usize).max(1) + 2,
        };
        let n = 1 + self.rng.usize(cap);
        let mut v = Vec::with_capacity(n);
        let style = self.rng.below(5);
        for _ in 0..n {
            v.push(match style {
                0 => b'A' + self.rng.below(26) as u8,
                1 => 0x20 + self.rng.below(0x5f) as u8,
                2 => 0x80 + self.rng.below(0x80) as u8,
                3 => b' ',
                _ => {
                    let b = self.rng.byte();
                    if b == 0x1b {
                        b'.'
                    } else {
                        b
                    }
                }
            });
        }
        v
    }

    fn csi(&mut self) -> Vec<u8> {
        let mut s = String::from("\x1b[");
        match self.profile {
            Profile::Cursor => {
                const FINALS: &[u8] = b"HfCjDkABsudeaGEFXPLMJKrSTbgYZ@'hl~";
                let f = *self.rng.pick(FINALS) as char;
                let n = match f {
                    'H' | 'f' | 'r' => self.rng.usize(4),
                    's' | 'u' => self.rng.usize(3),
                    _ => self.rng.usize(3),
                };
                if (f == 'h' || f == 'l') && self.rng.chance(3, 4) {
                    s.push('?');
                    s.push_str(*self.rng.pick(&["6", "7", "69", "25", "4"]));
                } else if f == '~' {
                    s.push_str(&self.rng.range(0, 7).to_string());
                } else {
                    let p = self.params(n);
                    s.push_str(&p);
                }
                s.push(f);
            }
            _ => {
                // every final byte 0x40..=0x7E x every intermediate
                let f = (0x40 + self.rng.below(0x3f) as u8) as char;
                const PRIV: &[&str] = &["", "", "", "", "?", "=", "!", "<"];
                const INTER: &[&str] = &["", "", "", "", " ", "$", "*"];
                let pr = *self.rng.pick(PRIV);
                let im = *self.rng.pick(INTER);
                let n = self.rng.usize(7);
                s.push_str(pr);
                let p = self.params(n);
                s.push_str(&p);
                s.push_str(im);
                s.push(f);
            }
        }
        s.into_bytes()
    }

    /// Well-formed control functions with the parameter counts that matter.
    fn csi_known(&mut self) -> Vec<u8> {
        let w = self.w as i64;
        let h = self.h as i64;
        let r = self.rng.below(31);
        let s = match r {
            // ANSI (non-private) modes: insert/replace, line feed/new line, send/receive, keyboard action
            30 => format!("\x1b[{}{}", self.rng.pick(&["4", "4", "20", "12", "2", "4;20"]), self.rng.pick(&["h", "l"])),
            0 => format!("\x1b[{};{}H", self.param(true), self.param(false)),
            1 => format!("\x1b[{};{}r", self.param(true), self.param(true)),
            2 => format!("\x1b[{};{};{};{}r", self.param(true), self.param(false), self.param(true), self.param(false)),
            3 => format!("\x1b[?69h\x1b[{};{}s", self.param(false), self.param(false)),
            4 => format!("\x1b[{};{};{};{};{}$x", self.fill_char(), self.param(true), self.param(false), self.param(true), self.param(false)),
            5 => format!("\x1b[{};{};{};{}$z", self.param(true), self.param(false), self.param(true), self.param(false)),
            6 => format!("\x1b[{};{};{};{}${{", self.param(true), self.param(false), self.param(true), self.param(false)),
            7 => format!("\x1b[{};1;{};{};{};{}*y", self.rng.below(9), self.param(true), self.param(false), self.param(true), self.param(false)),
            8 => format!("\x1b[{};{} D", self.rng.below(5), self.rng.below(50)),
            9 => format!("\x1b[{} @", self.param(false)),
            10 => format!("\x1b[{} A", self.param(false)),
            11 => format!("\x1b[{} d", self.param(false)),
            12 => format!("\x1b[{};{}*r", self.rng.below(12), self.rng.below(14)),
            13 => format!("\x1b[={};{}m", self.rng.below(4), self.param(true)),
            14 => {
                let n = self.rng.usize(2);
                format!("\x1b[={}r", self.params(n))
            }
            15 => format!("\x1b[={}n", self.rng.below(5)),
            16 => format!("\x1b[?{}n", self.rng.pick(&["62", "63;1", "63;9999", "6"])),
            17 => format!("\x1b[{}n", self.rng.pick(&["5", "6", "255", "7"])),
            18 => format!("\x1b[<{}c", self.rng.below(3)),
            19 => format!("\x1b[{}c", self.rng.below(2)),
            20 => "\x1b[!p".to_string(),
            21 => format!("\x1b[2$w"),
            22 => {
                if self.allow_resize {
                    format!("\x1b[8;{};{}t", self.param(true), self.param(false))
                } else {
                    format!("\x1b[{};{}H", h, w)
                }
            }
            23 => format!("\x1b[{};{};{};{}t", self.rng.below(3), self.rng.below(256), self.rng.below(256), self.rng.below(256)),
            24 => format!("\x1b[{}b", self.param(false)),
            25 => format!("\x1b[{}{}", self.param(true), self.rng.pick(&["S", "T", "L", "M", "@", "P", "X"])),
            26 => format!("\x1b[{}{}", self.rng.below(6), self.rng.pick(&["J", "K", "g"])),
            27 => format!("\x1b[{}{}", self.param(false), self.rng.pick(&["Y", "Z", "G", "'", "a", "C", "D"])),
            28 => format!("\x1b[{}{}", self.param(true), self.rng.pick(&["A", "B", "E", "F", "d", "e", "k"])),
            _ => format!("\x1b[?{}{}", self.rng.pick(&["4", "6", "7", "25", "33", "35", "69", "9", "1000", "1006", "1016", "2"]), self.rng.pick(&["h", "l"])),
        };
        s.into_bytes()
    }

    fn fill_char(&mut self) -> String {
        if self.profile == Profile::Unicode || self.rng.chance(1, 4) {
            let v: i64 = *self.rng.pick(&[0, 32, 65, 255, 256, 0xD7FF, 0xD800, 0xDBFF, 0xDFFF, 0xE000, 0xFFFF, 0x10000, 0x10FFFF, 0x110000, 2_147_483_647]);
            v.to_string()
        } else {
            self.rng.range(0, 300).to_string()
        }
    }

    fn sgr(&mut self) -> Vec<u8> {
        if self.profile == Profile::Palette && self.rng.chance(1, 3) {
            // a lone true-colour request, from a small pool so that the same colour is asked for again later
            const POOL: [(u8, u8, u8); 5] = [(10, 20, 30), (200, 100, 50), (1, 2, 3), (255, 255, 255), (0, 0, 0)];
            let c = *self.rng.pick(&POOL);
            return format!("\x1b[{};2;{};{};{}m", self.rng.pick(&[38, 48]), c.0, c.1, c.2).into_bytes();
        }
        let mut s = String::from("\x1b[");
        let n = 1 + self.rng.usize(4);
        for i in 0..n {
            if i > 0 {
                s.push(';');
            }
            match self.rng.below(8) {
                0 => s.push_str(&format!("38;5;{}", self.rng.below(260))),
                1 => s.push_str(&format!("48;5;{}", self.rng.below(260))),
                2 => s.push_str(&format!("38;2;{};{};{}", self.rng.below(256), self.rng.below(256), self.rng.below(256))),
                3 => s.push_str(&format!("48;2;{};{};{}", self.rng.below(256), self.rng.below(256), self.rng.below(256))),
                4 => s.push_str(&format!("38;{}", self.rng.below(7))),
                5 => s.push_str(&format!("{}", self.rng.pick(&[38, 48, 0, 1, 5, 7]))),
                _ => s.push_str(&self.rng.below(110).to_string()),
            }
        }
        s.push('m');
        s.into_bytes()
    }

    fn esc(&mut self) -> Vec<u8> {
        const FINALS: &[u8] = b"78cDMEH78DME0Z=>\\~ ";
        let f = if self.rng.chance(1, 6) { self.rng.byte() } else { *self.rng.pick(FINALS) };
        vec![0x1b, f]
    }

    fn c0(&mut self) -> Vec<u8> {
        const C: &[u8] = &[b'\r', b'\n', b'\n', 8, 9, 12, 7, 0, 0x7f, 0x1a, 11, 0x0e, 0x0f, 0xff];
        let n = 1 + self.rng.usize(3);
        (0..n).map(|_| *self.rng.pick(C)).collect()
    }

    fn body_tokens(&mut self, depth: u32) -> Vec<u8> {
        let mut v = Vec::new();
        let n = 1 + self.rng.usize(4);
        for _ in 0..n {
            match self.rng.below(6) {
                0 => v.extend(self.printable()),
                1 => v.extend(self.csi_known()),
                2 => v.extend(format!("\x1b[{}*z", self.rng.below(4)).into_bytes()),
                3 if depth < 2 => v.extend(self.macro_def(depth + 1).bytes),
                4 => v.extend(self.c0()),
                _ => v.extend(self.sgr()),
            }
        }
        v
    }

    fn macro_def(&mut self, depth: u32) -> Piece {
        let pid = self.rng.below(4);
        let pdt = self.rng.below(3);
        let mut v = format!("\x1bP{pid};{pdt};").into_bytes();
        if self.rng.chance(2, 3) {
            v.extend(b"0!z");
            // text macro: may invoke itself or its neighbours
            let body = self.body_tokens(depth);
            // ESC inside a DCS body is only legal as ESC [ n * z; strip others
            for b in body {
                if b != 0x1b {
                    v.push(b);
                } else {
                    v.extend(b"\x1b");
                }
            }
        } else {
            v.extend(b"1!z");
            let n = self.rng.usize(6);
            // the last element may be a repeat group that the definition leaves open
            let open_last = n > 0 && self.rng.chance(1, 4);
            for k in 0..n {
                if self.rng.chance(1, 3) || (open_last && k + 1 == n) {
                    let rep = if self.big.is_empty() { self.rng.below(20) as i64 } else { *self.rng.pick(self.big) };
                    v.extend(format!("!{rep};").into_bytes());
                    if self.rng.chance(1, 2) {
                        v.extend(self.hex_units());
                    } else {
                        for _ in 0..1 + self.rng.usize(3) {
                            v.extend(format!("{:02X}", self.rng.byte()).into_bytes());
                        }
                    }
                    if !(open_last && k + 1 == n) {
                        v.push(b';');
                    }
                } else if self.rng.chance(1, 3) {
                    v.extend(self.hex_units());
                } else if self.rng.chance(1, 4) {
                    // an invocation inside the body: the only way one macro can call another (or itself)
                    let inv = format!("\x1b[{}*z", self.rng.below(4));
                    v.extend(inv.bytes().flat_map(|b| format!("{b:02X}").into_bytes()));
                } else {
                    v.extend(format!("{:02x}", self.rng.byte()).into_bytes());
                }
            }
            if self.rng.chance(1, 8) {
                v.push(b'G');
            }
        }
        v.extend(b"\x1b\\");
        piece(v, true)
    }

    /// Hex pairs spelling a multi-byte unit: well-formed UTF-8, encoded surrogates, values above
    /// U+10FFFF, overlong forms, lone lead and continuation bytes.
    fn hex_units(&mut self) -> Vec<u8> {
        const UNITS: &[&[u8]] = &[
            &[0xC3, 0xA9],
            &[0xE2, 0x82, 0xAC],
            &[0xF0, 0x9F, 0x98, 0x80],
            &[0xED, 0x9F, 0xBF],
            &[0xED, 0xA0, 0x80],
            &[0xED, 0xAF, 0xBF],
            &[0xED, 0xB0, 0x80],
            &[0xED, 0xBF, 0xBF],
            &[0xEE, 0x80, 0x80],
            &[0xF4, 0x8F, 0xBF, 0xBF],
            &[0xF4, 0x90, 0x80, 0x80],
            &[0xF7, 0xBF, 0xBF, 0xBF],
            &[0xC0, 0x80],
            &[0xE0, 0x80, 0x80],
            &[0x80],
            &[0xC3],
            &[0xFF],
        ];
        let u = *self.rng.pick(UNITS);
        u.iter().flat_map(|b| format!("{b:02X}").into_bytes()).collect()
    }

    fn font_dcs(&mut self) -> Piece {
        use base64_lite::encode;
        let slot = self.rng.below(6);
        let mut data: Vec<u8> = match self.rng.below(5) {
            4 => {
                // no font at all, or a sliver of one
                let n = self.rng.usize(5);
                (0..n).map(|_| self.rng.byte()).collect()
            }
            0 => vec![0u8; 256 * 16],
            1 => (0..256 * 8).map(|i| (i * 7) as u8).collect(),
            2 => (0..256 * 14).map(|i| (i * 13) as u8).collect(),
            _ => {
                let n = self.rng.usize(600);
                (0..n).map(|_| self.rng.byte()).collect()
            }
        };
        if self.rng.chance(1, 4) {
            // PSF1 / PSF2 headers with field extremes
            let hdr: Vec<u8> = match self.rng.below(3) {
                0 => vec![0x36, 0x04, self.rng.below(4) as u8, *self.rng.pick(&[0u8, 1, 8, 16, 32, 255])],
                1 => {
                    let mut hd = vec![0x72, 0xb5, 0x4a, 0x86];
                    for f in [0u32, 32, 0, 256, 16, 16, 8] {
                        let v = if self.rng.chance(1, 4) { *self.rng.pick(&[0u32, 1, 32, 255, 65_536, 0x7fff_ffff, 0xffff_ffff]) } else { f };
                        hd.extend_from_slice(&v.to_le_bytes());
                    }
                    hd
                }
                _ => vec![],
            };
            let mut d = hdr;
            d.extend(data);
            data = d;
        }
        if matches!(self.profile, Profile::Unicode) && self.rng.chance(1, 24) {
            data = crate::gen_load::big_font(self.rng);
        }
        let mut v = format!("\x1bPCTerm:Font:{slot}:").into_bytes();
        v.extend(encode(&data).into_bytes());
        v.extend(b"\x1b\\");
        piece(v, true)
    }

    fn sixel_dcs(&mut self) -> Piece {
        let p = crate::gen_sixel::payload(self.rng, 60, 4, true);
        let params = *self.rng.pick(&["", "0;1;0", "9;1", "2;0"]);
        let mut pc = piece(crate::gen_sixel::dcs(params, &p.text), true);
        pc.sixel = true;
        pc
    }

    fn osc(&mut self) -> Piece {
        let s = match self.rng.below(6) {
            0 | 1 => format!("\x1b]4;{};rgb:{:02x}/{:02x}/{:02x}\x1b\\", self.rng.below(300), self.rng.byte(), self.rng.byte(), self.rng.byte()),
            2 => format!("\x1b]8;;http://example.com/{}\x1b\\", self.rng.below(100)),
            3 => "\x1b]8;;\x1b\\".to_string(),
            4 => format!("\x1b]4;{};rgb:{}\x1b\\", self.rng.below(20), self.rng.pick(&["", "1", "zz/00/00", "00/00", "000/000/000"])),
            _ => format!("\x1b]{};{}\x1b\\", self.rng.below(12), String::from_utf8_lossy(&self.printable().iter().map(|b| b & 0x7f).filter(|b| *b >= 0x20).collect::<Vec<u8>>())),
        };
        piece(s.into_bytes(), true)
    }

    fn aps(&mut self) -> Piece {
        let mut v = b"\x1b_".to_vec();
        v.extend(self.printable().iter().map(|b| if *b == 0x1b { b'.' } else { *b }));
        if self.rng.chance(1, 3) {
            v.extend(b"\x1bx");
        }
        v.extend(b"\x1b\\");
        piece(v, true)
    }

    fn music(&mut self) -> Piece {
        let lead = *self.rng.pick(&["\x1b[M", "\x1b[N", "\x1b[|", "\x1b[MF", "\x1b[MB"]);
        let mut v = lead.as_bytes().to_vec();
        const NOTES: &[u8] = b"TLOCDEFGABM<>P0123456789+#-.NS ";
        let n = self.rng.usize(24);
        for _ in 0..n {
            if self.rng.chance(1, 16) {
                v.push(self.rng.byte());
            } else {
                v.push(*self.rng.pick(NOTES));
            }
        }
        if self.rng.chance(5, 6) {
            v.push(0x0e);
        }
        piece(v, true)
    }

    fn ansi_token(&mut self) -> Piece {
        let r = self.rng.below(100);
        match self.profile {
            Profile::Cursor => match r {
                0..=24 => piece(self.printable(), false),
                25..=34 => piece(self.c0(), false),
                35..=69 => piece(self.csi(), true),
                70..=84 => piece(self.csi_known(), true),
                85..=92 => piece(self.esc(), true),
                93..=95 => piece(self.sgr(), true),
                _ => piece(vec![b'\n'; 1 + self.rng.usize(self.h as usize + 2)], false),
            },
            Profile::Palette => match r {
                0..=19 => piece(self.printable().into_iter().filter(|b| *b != b']').collect(), false),
                20..=69 => piece(self.sgr(), true),
                70..=79 => piece(format!("\x1b[{};{};{};{}t", self.rng.below(2), self.rng.below(256), self.rng.below(256), self.rng.below(256)).into_bytes(), true),
                80..=89 => piece(self.csi_known(), true),
                90..=94 => {
                    // OSC 4 redefines one index (the slots true-colour requests were given are the interesting ones)
                    let idx = if self.rng.chance(3, 4) { self.rng.below(22) } else { self.rng.below(300) };
                    piece(format!("\x1b]4;{idx};rgb:{:02x}/{:02x}/{:02x}\x1b\\", self.rng.byte(), self.rng.byte(), self.rng.byte()).into_bytes(), true)
                }
                _ => piece(self.c0(), false),
            },
            Profile::Unicode => match r {
                0..=3 => {
                    // something a link scanner will pick up, with characters beyond ASCII in it
                    let mut v = b"see http://example.com/caf".to_vec();
                    v.extend([0xe9, b'/', 0xfc, 0xb0, b'?', b'q', b'=', 0xa0 + self.rng.below(0x5f) as u8]);
                    v.extend(b" and www.icy-engine.org/\xdf\r\n");
                    piece(v, false)
                }
                4 if self.rng.chance(1, 12) => {
                    // a text macro as long as the macro space, with two-byte characters where the space ends
                    let n = 32_750 + self.rng.usize(24);
                    let mut v = format!("\x1bP{};0;0!z", self.rng.below(4)).into_bytes();
                    v.extend(std::iter::repeat(b'a').take(n));
                    for _ in 0..12 {
                        v.push(0xa1 + self.rng.below(0x5e) as u8);
                    }
                    v.extend(b"\x1b\\");
                    piece(v, true)
                }
                4..=19 => piece(self.printable(), false),
                20..=44 => piece(format!("\x1b[{};{};{};{};{}$x", self.fill_char(), self.param(true), self.param(false), self.param(true), self.param(false)).into_bytes(), true),
                45..=54 => self.macro_def(0),
                55..=59 => piece(format!("\x1b[{}*z", self.rng.below(4)).into_bytes(), true),
                60..=64 => self.osc(),
                65..=69 => self.font_dcs(),
                70..=84 => piece(self.csi_known(), true),
                85..=89 => piece(self.csi(), true),
                _ => piece(self.c0(), false),
            },
            Profile::Crash | Profile::Magnitude => match r {
                0..=17 => piece(self.printable(), false),
                18..=25 => piece(self.c0(), false),
                26..=45 => piece(self.csi(), true),
                46..=62 => piece(self.csi_known(), true),
                63..=68 => piece(self.sgr(), true),
                69..=73 => piece(self.esc(), true),
                74..=79 => self.macro_def(0),
                80..=82 => piece(format!("\x1b[{}*z", self.rng.below(4)).into_bytes(), true),
                83..=84 => self.font_dcs(),
                85..=88 => self.sixel_dcs(),
                89..=91 => {
                    if self.allow_osc {
                        self.osc()
                    } else {
                        piece(self.sgr(), true)
                    }
                }
                92..=93 => self.aps(),
                94..=96 => self.music(),
                97 => piece(vec![b'\n'; 1 + self.rng.usize(self.h as usize + 2)], false),
                _ => {
                    // garbage DCS
                    let mut v = b"\x1bP".to_vec();
                    v.extend(self.printable().iter().map(|b| if *b == 0x1b { b'q' } else { *b }));
                    v.extend(b"\x1b\\");
                    piece(v, true)
                }
            },
        }
    }

    fn other_token(&mut self) -> Piece {
        let emu = self.emu;
        let r = self.rng.below(10);
        match emu {
            "avatar" => match r {
                0..=2 => piece(self.printable(), false),
                3 => piece(vec![0x0c], false),
                4 => piece(vec![0x19, self.rng.byte(), self.rng.byte()], true),
                5 | 6 => {
                    let c = 1 + self.rng.below(9) as u8;
                    let mut v = vec![0x16, c];
                    match c {
                        1 => v.push(self.rng.byte()),
                        8 => {
                            v.push(self.rng.byte());
                            v.push(self.rng.byte());
                        }
                        _ => {}
                    }
                    piece(v, true)
                }
                7 => piece(vec![0x16, self.rng.byte(), self.rng.byte(), self.rng.byte()], true),
                _ => self.ansi_token(),
            },
            "pcboard" => match r {
                0..=2 => piece(self.printable(), false),
                3 | 4 => piece(format!("@X{:X}{:X}", self.rng.below(16), self.rng.below(16)).into_bytes(), true),
                5 => piece(format!("@X{}", self.rng.byte() as char).into_bytes(), true),
                6 => piece(b"@CLS@".to_vec(), true),
                7 => piece(format!("@{}@", String::from_utf8_lossy(&self.printable().iter().map(|b| b & 0x7f).collect::<Vec<u8>>())).into_bytes(), true),
                _ => self.ansi_token(),
            },
            "ctrla" => match r {
                0..=2 => piece(self.printable(), false),
                3..=6 => {
                    const C: &[u8] = b"L'J><|]AHIENZKBGCRMYW04261537";
                    piece(vec![1, *self.rng.pick(C)], true)
                }
                7 => piece(vec![1, self.rng.byte()], true),
                _ => self.ansi_token(),
            },
            "renegade" => match r {
                0..=2 => piece(self.printable(), false),
                3..=5 => piece(format!("|{}{}", self.rng.below(4), self.rng.below(10)).into_bytes(), true),
                6 => piece(vec![b'|', self.rng.byte(), self.rng.byte()], true),
                _ => self.ansi_token(),
            },
            "petscii" => match r {
                0..=3 => piece(self.printable(), false),
                4 | 5 => piece(vec![0x1b, *self.rng.pick(b"OQP@JKABCDEFGHILMNRSTUVWXYZ")], true),
                6 => piece(vec![0x1b, self.rng.byte()], true),
                _ => {
                    const C: &[u8] = &[0x05, 0x07, 0x08, 0x09, 0x0a, 0x0d, 0x0e, 0x11, 0x12, 0x13, 0x14, 0x1c, 0x1d, 0x1e, 0x1f, 0x81, 0x8d, 0x8e, 0x90, 0x91, 0x92, 0x93, 0x94, 0x9d, 0x0f, 0x02, 0x82, 0x0b, 0x0c, 0x18, 0x1b];
                    let n = 1 + self.rng.usize(4);
                    piece((0..n).map(|_| *self.rng.pick(C)).collect(), false)
                }
            },
            "atascii" => match r {
                0..=3 => piece(self.printable(), false),
                4 => piece(vec![0x1b, self.rng.byte()], true),
                _ => {
                    const C: &[u8] = &[0x1b, 0x1c, 0x1d, 0x1e, 0x1f, 0x7d, 0x7e, 0x7f, 0x9b, 0x9c, 0x9d, 0x9e, 0x9f, 0xfd, 0xfe, 0xff];
                    let n = 1 + self.rng.usize(4);
                    piece((0..n).map(|_| *self.rng.pick(C)).collect(), false)
                }
            },
            "viewdata" | "mode7" => match r {
                0..=3 => piece(self.printable().iter().map(|b| b & 0x7f).collect(), false),
                4 | 5 => piece(vec![0x1b, *self.rng.pick(b"ABCDEFGHILMQRSTUVWXYZ\\]^_")], true),
                6 => piece(vec![0x1b, self.rng.byte()], true),
                7 => piece(vec![b'\n'; 1 + self.rng.usize(30)], false),
                _ => {
                    const C: &[u8] = &[0x08, 0x09, 0x0a, 0x0b, 0x0c, 0x0d, 0x11, 0x14, 0x1b, 0x1e, 0x00, 0x7f, 0x80, 0x9f];
                    let n = 1 + self.rng.usize(5);
                    piece((0..n).map(|_| *self.rng.pick(C)).collect(), false)
                }
            },
            _ => match r {
                0..=5 => piece(self.printable(), false),
                6 | 7 => piece(self.c0(), false),
                _ => piece((0..1 + self.rng.usize(12)).map(|_| self.rng.byte()).collect(), false),
            },
        }
    }

    pub fn token(&mut self) -> Piece {
        if self.emu == "ansi" {
            self.ansi_token()
        } else {
            self.other_token()
        }
    }
}

/// A file made of the pieces a host would send (control functions, DCS with fonts, macros and sixels, OSC, music,
/// text): what a captured session looks like when it is saved under a file extension and loaded again.
pub fn stream_for_file(rng: &mut Rng, emu: &'static str) -> Vec<u8> {
    let music = *rng.pick(&MUSIC);
    let budget = *rng.pick(&[40usize, 200, 800]);
    let mut host = Host {
        rng,
        w: 80,
        h: 25,
        profile: Profile::Crash,
        emu,
        music,
        allow_resize: true,
        allow_osc: true,
        big: &[],
    };
    let mut v = Vec::new();
    while v.len() < budget {
        v.extend(host.token().bytes);
    }
    v
}

/// Minimal base64 (standard alphabet, padded) so the harness needs no extra crate.
pub mod base64_lite {
    const T: &[u8; 64] = b"ABCDEFGHIJKLMNOPQRSTUVWXYZabcdefghijklmnopqrstuvwxyz0123456789+/";
    pub fn encode(d: &[u8]) -> String {
        let mut s = String::with_capacity(d.len().div_ceil(3) * 4);
        for c in d.chunks(3) {
            let b = [c[0], *c.get(1).unwrap_or(&0), *c.get(2).unwrap_or(&0)];
            s.push(T[(b[0] >> 2) as usize] as char);
            s.push(T[(((b[0] & 3) << 4) | (b[1] >> 4)) as usize] as char);
            s.push(if c.len() > 1 { T[(((b[1] & 15) << 2) | (b[2] >> 6)) as usize] as char } else { '=' });
            s.push(if c.len() > 2 { T[(b[2] & 63) as usize] as char } else { '=' });
        }
        s
    }
}

// ---------------------------------------------------------------- the line

pub const LINE_FAULTS: [&str; 11] = ["bitflip", "drop", "dup", "noise", "chunk_dup", "swap", "cut", "strip7", "xonxoff", "nul", "loopback"];

/// Swarm configuration: which fault kinds are on in this run and how often they fire (per mille per piece).
pub struct Swarm {
    pub rates: Vec<(&'static str, u64)>,
}

pub fn swarm(rng: &mut Rng) -> Swarm {
    let mut rates = Vec::new();
    if rng.chance(1, 4) {
        return Swarm { rates };
    }
    for f in LINE_FAULTS {
        if rng.chance(1, 3) {
            let rate = if rng.chance(1, 2) { 15 } else { 60 };
            rates.push((f, rate));
        }
    }
    Swarm { rates }
}

/// Sends the pieces over the faulty line; appends effective events to the trace.
pub fn transmit(rng: &mut Rng, sw: &Swarm, pieces: Vec<Piece>, t: &mut Trace, ui: &mut dyn FnMut(&mut Rng, &mut Trace, usize)) {
    let mut pieces = pieces;
    let mut i = 0;
    let mut sixels_sent = 0usize;
    while i < pieces.len() {
        let mut p = pieces[i].clone();
        let mut skip = 0usize;
        let mut loopback = false;
        for (kind, rate) in &sw.rates {
            // faults land preferentially inside operations with in-flight state
            let r = if p.fragile { *rate * 2 } else { *rate / 2 };
            if p.bytes.is_empty() || !rng.chance(r, 1000) {
                continue;
            }
            let at = rng.usize(p.bytes.len());
            match *kind {
                "bitflip" => {
                    let bit = rng.below(8);
                    p.bytes[at] ^= 1 << bit;
                    t.faults.push(format!("bitflip piece={i} at={at} bit={bit}"));
                }
                "drop" => {
                    p.bytes.remove(at);
                    t.faults.push(format!("drop piece={i} at={at}"));
                }
                "dup" => {
                    let b = p.bytes[at];
                    p.bytes.insert(at, b);
                    t.faults.push(format!("dup piece={i} at={at}"));
                }
                "noise" => {
                    let n = 1 + rng.usize(8);
                    for _ in 0..n {
                        let b = rng.byte();
                        p.bytes.insert(at, b);
                    }
                    t.faults.push(format!("noise piece={i} at={at} len={n}"));
                }
                "chunk_dup" => {
                    let copy = p.bytes.clone();
                    p.bytes.extend(copy);
                    t.faults.push(format!("chunk_dup piece={i}"));
                }
                "swap" => {
                    if i + 1 < pieces.len() {
                        pieces.swap(i, i + 1);
                        p = pieces[i].clone();
                        t.faults.push(format!("swap piece={i}"));
                    }
                }
                "cut" => {
                    // carrier loss in the middle of this piece; the host redials and talks to the same terminal
                    p.bytes.truncate(at);
                    skip = rng.usize(4);
                    t.faults.push(format!("cut piece={i} at={at} lost_pieces={skip}"));
                }
                "strip7" => {
                    for b in &mut p.bytes {
                        *b &= 0x7f;
                    }
                    t.faults.push(format!("strip7 piece={i}"));
                }
                "xonxoff" => {
                    p.bytes.insert(at, if rng.chance(1, 2) { 0x11 } else { 0x13 });
                    t.faults.push(format!("xonxoff piece={i} at={at}"));
                }
                "nul" => {
                    let n = 1 + rng.usize(4);
                    for _ in 0..n {
                        p.bytes.insert(at, 0);
                    }
                    t.faults.push(format!("nul piece={i} at={at} len={n}"));
                }
                "loopback" => {
                    loopback = true;
                    t.faults.push(format!("loopback piece={i}"));
                }
                _ => {}
            }
        }
        t.rx(&p.bytes);
        if p.sixel {
            sixels_sent += 1;
        }
        if loopback {
            t.events.push(Ev::Loopback);
        }
        ui(rng, t, sixels_sent);
        i += 1 + skip;
    }
}

pub fn pick_size(rng: &mut Rng, emu: &str) -> (i32, i32) {
    match emu {
        "viewdata" | "mode7" => (40, 24),
        "petscii" if rng.chance(2, 3) => (40, 25),
        "atascii" if rng.chance(2, 3) => (40, 24),
        _ => match rng.below(10) {
            0..=3 => (80, 25),
            4 => (40, 24),
            5 => (1, 1),
            6 => (132, 60),
            7 => (rng.range(1, 132) as i32, 1),
            8 => (1, rng.range(1, 60) as i32),
            _ => (rng.range(1, 132) as i32, rng.range(1, 60) as i32),
        },
    }
}

pub fn gen_term(prop: &'static str, rng: &mut Rng, run: u64, thorough: bool) -> Trace {
    let mut t = Trace::new(prop, "term");
    let profile = match prop {
        "C09" => Profile::Cursor,
        "C10" => Profile::Unicode,
        "C16" => Profile::Palette,
        "C03" => Profile::Magnitude,
        _ => Profile::Crash,
    };
    // every emulation gets its share; ANSI (the largest state space) gets half
    let emu: &'static str = if profile == Profile::Unicode && run % 8 == 1 {
        // the other emulations translate characters too (and are handed whole characters, see below)
        EMULATIONS[1 + (run / 8 % 9) as usize]
    } else if matches!(profile, Profile::Unicode | Profile::Palette | Profile::Magnitude) || run % 2 == 0 {
        "ansi"
    } else {
        EMULATIONS[1 + (run / 2 % 9) as usize]
    };
    let (w, h) = pick_size(rng, emu);
    let music = *rng.pick(&MUSIC);
    t.cfg.emu = emu.into();
    t.cfg.music = music.into();
    t.cfg.w = w;
    t.cfg.h = h;
    t.cfg.bs_is_ctrl = rng.chance(1, 4);
    t.cfg.prefilled = rng.chance(1, 4);
    t.cfg.clock_ms = 1_700_000_000_000;
    t.cfg.monitor_every = *rng.pick(&[1u64, 8, 64]);
    let max_bytes = if thorough { 16 * 1024 } else { 4 * 1024 };
    let budget = match rng.below(4) {
        0 => 64,
        1 => 512,
        2 => 2048,
        _ => max_bytes,
    };
    let sw = if profile == Profile::Magnitude { Swarm { rates: vec![] } } else { swarm(rng) };
    let big: &[i64] = if profile == Profile::Magnitude { &C03_MAGNITUDES } else { &[] };
    let mut pieces = Vec::new();
    let mut total = 0usize;
    {
        let mut host = Host {
            rng,
            w,
            h,
            profile,
            emu,
            music,
            allow_resize: profile == Profile::Crash,
            allow_osc: profile != Profile::Palette,
            big,
        };
        // C09: fill the scrollback first in some runs
        if profile == Profile::Cursor && host.rng.chance(1, 2) {
            let n = h as usize + host.rng.usize(2 * h as usize + 2);
            pieces.push(piece(vec![b'\n'; n], false));
        }
        while total < budget {
            let p = host.token();
            total += p.bytes.len();
            pieces.push(p);
        }
    }
    t.labels.push(format!("emu={emu}"));
    let mut released = 0usize;
    let mut ui = |rng: &mut Rng, t: &mut Trace, sixels: usize| {
        // UI actor: polls and decode completions at scheduler-chosen moments
        if rng.chance(1, 12) {
            t.events.push(Ev::Poll);
        }
        if released < sixels && rng.chance(1, 2) {
            // any in-flight decode may finish next
            let k = released + rng.usize(sixels - released);
            t.events.push(Ev::Release { ticket: k });
            if k == released {
                released += 1;
            }
            if rng.chance(1, 2) {
                t.events.push(Ev::Poll);
            }
        }
    };
    transmit(rng, &sw, pieces, &mut t, &mut ui);
    if (profile == Profile::Unicode && rng.chance(1, 3)) || (profile == Profile::Crash && rng.chance(1, 10)) {
        // a front end that decodes UTF-8 itself hands over characters, not bytes: from the private use area just
        // above the surrogates, the ends of the planes, ones whose low 16 bits look like a surrogate
        const WIDE: [u32; 20] = [
            0x100, 0x2588, 0x263A, 0xD7FF, 0xE000, 0xE001, 0xE03F, 0xE07F, 0xE080, 0xF8FF, 0xFFFD, 0xFFFE, 0xFFFF, 0x1_0000, 0x1_D800, 0x1_DFFF, 0x1_F600, 0x2_D800, 0x10_DC00, 0x10_FFFF,
        ];
        for _ in 0..1 + rng.usize(5) {
            let n = 1 + rng.usize(4);
            let cps: Vec<u32> = (0..n).map(|_| if rng.chance(1, 5) { 0xE000 + rng.below(0x100) as u32 } else { *rng.pick(&WIDE) }).collect();
            let at = rng.usize(t.events.len() + 1);
            t.events.insert(at, Ev::RxWide { cps });
        }
        t.labels.push("wide=yes".into());
    }
    t.events.push(Ev::Poll);
    t
}

// ---------------------------------------------------------------- C03

/// Step bound for an input of n bytes on a w x h screen (DESIGN.md §3 C03).
pub fn c03_bound(n: u64, w: u64, h: u64) -> u64 {
    // each byte may scroll or fill the screen plus the scrollback it created; one control function may
    // scroll a full screen height of times; constants leave >= 4x head-room over the worst legitimate
    // case measured on the repaired tree (CSI 60 S on 132x60: 475 201 ticks)
    16 * (n + 1) * w * (h + n + 1) + 4 * w * h * h + 500_000
}

fn mag(rng: &mut Rng, size: i64) -> String {
    match rng.below(8) {
        0 => String::new(),
        1 => "0".into(),
        2 => "1".into(),
        3 => size.to_string(),
        4 => "65536".into(),
        5 => "1000000".into(),
        _ => "2147483647".into(),
    }
}

/// One control function (or file-like payload) with extreme magnitudes, after a short set-up.
pub fn gen_c03(rng: &mut Rng, _run: u64, _thorough: bool) -> Trace {
    let mut t = Trace::new("C03", "term");
    let emu: &'static str = match rng.below(10) {
        0 => "avatar",
        1 => *rng.pick(&["pcboard", "ctrla", "renegade", "petscii", "atascii", "viewdata", "mode7"]),
        _ => "ansi",
    };
    let (w, h) = pick_size(rng, emu);
    t.cfg.emu = emu.into();
    // (with ANSI music on, CSI M / N / | start a music string instead of deleting lines)
    t.cfg.music = (if rng.chance(1, 2) { "Off" } else { *rng.pick(&MUSIC) }).into();
    t.cfg.w = w;
    t.cfg.h = h;
    t.cfg.prefilled = rng.chance(1, 3);
    t.cfg.clock_ms = 1_700_000_000_000;
    let mut bytes: Vec<u8> = Vec::new();
    // set-up: a little state for the target to meet
    for _ in 0..rng.usize(3) {
        match rng.below(6) {
            0 => bytes.extend(b"AB"),
            1 => bytes.extend(vec![b'\n'; 1 + rng.usize(h as usize + 1)]),
            2 => bytes.extend(format!("\x1b[{};{}r", 1 + rng.below(3), 2 + rng.below(h as u64)).into_bytes()),
            3 => bytes.extend(b"\x1b[?69h\x1b[2;5s"),
            4 => bytes.extend(b"\x1b[4h"),
            _ => bytes.extend(format!("\x1b[{};{}H", 1 + rng.below(h as u64), 1 + rng.below(w as u64)).into_bytes()),
        }
    }
    if emu == "ansi" && rng.chance(1, 2) {
        // a screen that has something on every row (rows are stored lazily: many functions do nothing on rows that
        // do not exist yet), a scroll region that covers all or most of it, and the cursor inside
        for _ in 0..h {
            bytes.extend(b"x\r\n");
        }
        if rng.chance(2, 3) {
            bytes.extend(format!("\x1b[{};{}r", 1 + rng.below(2), (h as u64).saturating_sub(rng.below(2)).max(2)).into_bytes());
        }
        bytes.extend(format!("\x1b[{};1H", 1 + rng.below((h as u64).min(5))).into_bytes());
    }
    // a resize request with extreme numbers first: the engine clamps it to 132x60, and every later clamp
    // ("at most one screenful") is only as good as that one
    let mut bound_w = w as u64;
    let mut bound_h = h as u64;
    if emu == "ansi" && rng.chance(1, 3) {
        let hh = mag(rng, h as i64);
        let ww = mag(rng, w as i64);
        bytes.extend(format!("\x1b[8;{hh};{ww}t").into_bytes());
        bound_w = bound_w.max(132);
        bound_h = bound_h.max(60);
    }
    let target: String;
    if emu != "ansi" && rng.chance(1, 2) {
        match emu {
            "avatar" => {
                match rng.below(3) {
                    0 => {
                        bytes.extend([0x19, b'x', 0xff]);
                        target = "avatar:rep".into();
                    }
                    1 => {
                        bytes.extend([0x16, 8, 0xff, 0xff]);
                        target = "avatar:goto".into();
                    }
                    _ => {
                        bytes.extend([0x19, 0x19, 0xff, 0xff, 0xff]);
                        target = "avatar:rep_rep".into();
                    }
                }
            }
            _ => {
                let n = 1 + rng.usize(24);
                for _ in 0..n {
                    bytes.push(rng.byte());
                }
                target = format!("{emu}:bytes");
            }
        }
    } else {
        let size = if rng.chance(1, 2) { w } else { h } as i64;
        match rng.below(16) {
            15 => {
                // macro numbers are numbers too: define under an extreme id, then ask for the checksum of all
                // macros (DECCKSR) and invoke it
                let id = mag(rng, size);
                let enc = rng.below(2);
                let body = if enc == 1 { "4142" } else { "AB" };
                bytes.extend(format!("\x1bP{id};0;{enc}!z{body}\x1b\\").into_bytes());
                match rng.below(3) {
                    0 => bytes.extend(format!("\x1b[?63;{}n", rng.below(3)).into_bytes()),
                    1 => bytes.extend(format!("\x1b[{id}*z").into_bytes()),
                    _ => bytes.extend(format!("\x1b[?63;1n\x1b[{id}*z").into_bytes()),
                }
                target = "macro:id".into();
            }
            14 => {
                // rectangle functions: top / left / bottom / right each independently on the screen or far
                // outside it (a function may check three of its four edges)
                let mut edge = |r: &mut Rng, size: i64| -> String {
                    match r.below(5) {
                        0 => "1".to_string(),
                        1 => r.range(1, size.max(1)).to_string(),
                        2 => size.to_string(),
                        3 => "2147483647".to_string(),
                        _ => mag(r, size),
                    }
                };
                let (t, l, b, r_) = (edge(rng, h as i64), edge(rng, w as i64), edge(rng, h as i64), edge(rng, w as i64));
                let s = match rng.below(7) {
                    0 => format!("\x1b[1;1;{t};{l};{b};{r_}*y"),
                    1 => format!("\x1b[65;{t};{l};{b};{r_}$x"),
                    2 => format!("\x1b[{t};{l};{b};{r_}$z"),
                    3 => format!("\x1b[{t};{l};{b};{r_}${{"),
                    4 => format!("\x1b[{t};{l};{b};{r_};1;1;1;1$v"),
                    5 => format!("\x1b[{t};{l};{b};{r_};1$r"),
                    _ => format!("\x1b[{t};{l};{b};{r_};7$t"),
                };
                bytes.extend(s.into_bytes());
                target = "csi:rectangle".into();
            }
            0..=5 => {
                let f = (0x40 + rng.below(0x3f) as u8) as char;
                let pr = *rng.pick(&["", "", "", "", "", "", "?", "=", "!", "<"]);
                let im = *rng.pick(&["", "", "", "", "", "", " ", "$", "*"]);
                let n = rng.usize(7);
                let mut s = format!("\x1b[{pr}");
                for i in 0..n {
                    if i > 0 {
                        s.push(';');
                    }
                    s.push_str(&mag(rng, size));
                }
                s.push_str(im);
                s.push(f);
                // the same function several times over: a clamp that reads state the function itself
                // changes (scrollback height, cursor row, margins) compounds from call to call
                let times = if rng.chance(1, 3) { 2 + rng.usize(15) } else { 1 };
                for _ in 0..times {
                    bytes.extend(s.as_bytes());
                }
                if times > 1 {
                    t.labels.push("shape=repeated".into());
                }
                target = format!("csi:{pr}{im}{f}");
            }
            6 => {
                // self- and mutually-recursive macros. A macro body can only carry an invocation in the
                // hex encoding (in a text body ESC [ n * z is executed while the macro is being defined).
                let hx = |s: &str| s.bytes().map(|b| format!("{b:02X}")).collect::<String>();
                match rng.below(3) {
                    0 => bytes.extend(format!("\x1bP1;0;1!z{}\x1b\\\x1b[1*z", hx("\x1b[1*z")).into_bytes()),
                    1 => bytes.extend(format!("\x1bP1;0;1!z{}\x1b\\\x1bP2;0;1!z{}\x1b\\\x1b[1*z", hx("\x1b[2*z"), hx("\x1b[1*z")).into_bytes()),
                    _ => bytes.extend(format!("\x1bP1;0;1!z{}\x1b\\\x1b[1*z", hx("A\x1b[1*z\x1b[1*z")).into_bytes()),
                }
                target = "macro:recursive".into();
            }
            7 => {
                // macros that invoke macros: multiplicative expansion without recursion
                let hx = |s: &str| s.bytes().map(|b| format!("{b:02X}")).collect::<String>();
                let levels = 2 + rng.usize(4);
                bytes.extend(b"\x1bP0;0;0!zAAAAAAAA\x1b\\");
                for l in 1..=levels {
                    let mut body = String::new();
                    for _ in 0..4 {
                        body.push_str(&format!("\x1b[{}*z", l - 1));
                    }
                    bytes.extend(format!("\x1bP{l};0;1!z{}\x1b\\", hx(&body)).into_bytes());
                }
                bytes.extend(format!("\x1b[{levels}*z").into_bytes());
                target = "macro:chain".into();
            }
            8 => {
                // hex macro repeat groups: closed by ';', left open at the end of the definition, several in a row
                let rep = mag(rng, size);
                let def = match rng.below(4) {
                    0 => format!("!{rep};4142;"),
                    1 => format!("!{rep};41"),
                    2 => format!("4869!3;2D;!{rep};4142"),
                    _ => format!("!{rep};41;!{};42;43", mag(rng, size)),
                };
                bytes.extend(format!("\x1bP1;0;1!z{def}\x1b\\\x1b[1*z").into_bytes());
                target = "dcs:hexrepeat".into();
            }
            9 => {
                let a = mag(rng, size);
                let b = mag(rng, size);
                bytes.extend(format!("\x1bPq\"1;1;{a};{b}~\x1b\\").into_bytes());
                target = "sixel:raster".into();
            }
            10 => {
                let a = mag(rng, size);
                bytes.extend(format!("\x1bPq!{a}~-!{}~\x1b\\", mag(rng, size)).into_bytes());
                target = "sixel:repeat".into();
            }
            11 => {
                let a = mag(rng, size);
                bytes.extend(format!("\x1bPq#{a};2;1;1;1~#{a}~\x1b\\").into_bytes());
                target = "sixel:color".into();
            }
            12 => {
                let hdr: Vec<u8> = if rng.chance(1, 2) {
                    vec![0x36, 0x04, rng.below(4) as u8, *rng.pick(&[0u8, 1, 32, 255])]
                } else {
                    let mut hd = vec![0x72, 0xb5, 0x4a, 0x86];
                    for f in [0u32, 32, 0, 256, 16, 16, 8] {
                        let v = if rng.chance(1, 3) { *rng.pick(&[0u32, 1, 32, 255, 65_536, 0x7fff_ffff, 0xffff_ffff]) } else { f };
                        hd.extend_from_slice(&v.to_le_bytes());
                    }
                    hd
                };
                let mut d = hdr;
                let n = *rng.pick(&[0usize, 1, 16, 64, 4096]);
                d.extend(vec![0xAA; n]);
                bytes.extend(format!("\x1bPCTerm:Font:{}:", mag(rng, 3)).into_bytes());
                bytes.extend(base64_lite::encode(&d).into_bytes());
                bytes.extend(b"\x1b\\");
                target = "font:dcs".into();
            }
            _ => {
                let idx = mag(rng, size);
                match rng.below(3) {
                    0 => bytes.extend(format!("\x1b]4;{idx};rgb:00/00/00\x1b\\").into_bytes()),
                    1 => bytes.extend(format!("\x1b[38;5;{idx}m\x1b[48;2;{idx};{idx};{idx}mA").into_bytes()),
                    _ => bytes.extend(format!("\x1b[{idx};{idx} D").into_bytes()),
                }
                target = "colour:index".into();
            }
        }
    }
    let n = bytes.len() as u64;
    let mut bound = c03_bound(n, bound_w, bound_h);
    if target.starts_with("macro:") || target == "dcs:hexrepeat" {
        // one invocation may legitimately replay up to the macro space (32 767 characters, the engine's own
        // limit), and each replayed character may scroll the screen once
        bound += 32_767 * (bound_w * bound_h + 8);
    }
    t.cfg.fuel = bound;
    t.cfg.decode_fuel = bound;
    t.labels.push(format!("target={target}"));
    t.labels.push(format!("emu={emu}"));
    t.rx(&bytes);
    t.events.push(Ev::Release { ticket: 0 });
    t.events.push(Ev::Poll);
    t
}
