//! Trace minimisation: shrink the event and fault sequence while the same violation class persists.
//! Works on effective events, so the PRNG never has to be re-synchronised.

use crate::trace::{from_hex, to_hex, Ev, Trace};

struct Ctx<'a> {
    test: &'a mut dyn FnMut(&Trace) -> bool,
    used: u64,
    budget: u64,
    /// wall-clock limit for the whole minimisation (candidates of a step-budget violation cost seconds each);
    /// it only decides how small the reported trace gets, never a verdict
    deadline: std::time::Instant,
}

impl Ctx<'_> {
    fn ok(&mut self, t: &Trace) -> bool {
        if self.used >= self.budget {
            return false;
        }
        if std::time::Instant::now() >= self.deadline {
            self.used = self.budget;
            return false;
        }
        self.used += 1;
        (self.test)(t)
    }
}

/// ddmin over a vector: returns the reduced vector. `build` turns a candidate vector into a trace.
fn ddmin<T: Clone>(items: Vec<T>, ctx: &mut Ctx, build: &dyn Fn(&[T]) -> Trace) -> Vec<T> {
    let mut cur = items;
    let mut n = 2usize;
    while cur.len() >= 2 && ctx.used < ctx.budget {
        let chunk = cur.len().div_ceil(n);
        let mut reduced = false;
        let mut start = 0;
        while start < cur.len() {
            let end = (start + chunk).min(cur.len());
            let mut cand: Vec<T> = Vec::with_capacity(cur.len() - (end - start));
            cand.extend_from_slice(&cur[..start]);
            cand.extend_from_slice(&cur[end..]);
            if !cand.is_empty() && ctx.ok(&build(&cand)) {
                cur = cand;
                n = n.saturating_sub(1).max(2);
                reduced = true;
                break;
            }
            start = end;
        }
        if !reduced {
            if chunk <= 1 {
                break;
            }
            n = (n * 2).min(cur.len());
        }
    }
    // single-element case
    if cur.len() == 1 {
        let cand: Vec<T> = Vec::new();
        if ctx.ok(&build(&cand)) {
            cur = cand;
        }
    }
    cur
}

fn ev_bytes(e: &Ev) -> Option<Vec<u8>> {
    match e {
        Ev::Rx { hex } | Ev::Load { hex, .. } => Some(from_hex(hex)),
        Ev::Op { hex, .. } if !hex.is_empty() => Some(from_hex(hex)),
        _ => None,
    }
}

fn with_bytes(e: &Ev, b: &[u8]) -> Ev {
    match e {
        Ev::Rx { .. } => Ev::Rx { hex: to_hex(b) },
        Ev::Load { entry, name, .. } => Ev::Load {
            entry: entry.clone(),
            name: name.clone(),
            hex: to_hex(b),
        },
        Ev::Op { name, args, .. } => Ev::Op {
            name: name.clone(),
            args: args.clone(),
            hex: to_hex(b),
        },
        other => other.clone(),
    }
}

pub fn minimise(trace: &Trace, still_fails: &mut dyn FnMut(&Trace) -> bool) -> Trace {
    minimise_with_budget(trace, still_fails, 4000)
}

pub fn minimise_with_budget(trace: &Trace, still_fails: &mut dyn FnMut(&Trace) -> bool, budget: u64) -> Trace {
    let mut ctx = Ctx {
        test: still_fails,
        used: 0,
        budget,
        deadline: std::time::Instant::now() + std::time::Duration::from_secs(90),
    };
    let mut best = trace.clone();
    // merge adjacent Rx events first so byte-level shrinking sees whole sequences
    loop {
        let before = (best.events.len(), best.n_bytes());

        // 1. events
        {
            let base = best.clone();
            let evs = ddmin(best.events.clone(), &mut ctx, &|c: &[Ev]| {
                let mut t = base.clone();
                t.events = c.to_vec();
                t
            });
            best.events = evs;
        }

        // 2. bytes inside each event
        for i in 0..best.events.len() {
            let Some(bytes) = ev_bytes(&best.events[i]) else { continue };
            if bytes.is_empty() {
                continue;
            }
            let base = best.clone();
            let is_load = matches!(best.events[i], Ev::Load { .. });
            let mut cur = bytes;
            if is_load {
                // truncation from the back first (keeps offsets of what remains)
                let mut lo = 0usize;
                let mut hi = cur.len();
                while lo < hi && ctx.used < ctx.budget {
                    let mid = (lo + hi) / 2;
                    let mut t = base.clone();
                    t.events[i] = with_bytes(&base.events[i], &cur[..mid]);
                    if ctx.ok(&t) {
                        hi = mid;
                    } else {
                        lo = mid + 1;
                    }
                }
                let mut t = base.clone();
                t.events[i] = with_bytes(&base.events[i], &cur[..hi.min(cur.len())]);
                if hi < cur.len() && ctx.ok(&t) {
                    cur.truncate(hi);
                }
            }
            let ev_i = base.events[i].clone();
            let base2 = {
                let mut b = base.clone();
                b.events[i] = with_bytes(&ev_i, &cur);
                b
            };
            let reduced = ddmin(cur.clone(), &mut ctx, &|c: &[u8]| {
                let mut t = base2.clone();
                t.events[i] = with_bytes(&ev_i, c);
                t
            });
            cur = reduced;
            // simplify bytes
            if cur.len() <= 256 {
                for j in 0..cur.len() {
                    let simple: &[u8] = if is_load { &[0] } else { &[b'0', b'A'] };
                    for s in simple {
                        if cur[j] == *s || (cur[j].is_ascii_digit() && *s == b'A') {
                            continue;
                        }
                        if !is_load && !(cur[j].is_ascii_alphanumeric() || cur[j] >= 0x80) {
                            continue;
                        }
                        let mut cand = cur.clone();
                        cand[j] = *s;
                        let mut t = base2.clone();
                        t.events[i] = with_bytes(&ev_i, &cand);
                        if ctx.ok(&t) {
                            cur = cand;
                            break;
                        }
                    }
                }
            }
            best.events[i] = with_bytes(&ev_i, &cur);
        }

        // 3. numeric arguments of operations
        for i in 0..best.events.len() {
            if let Ev::Op { name, args, hex } = best.events[i].clone() {
                let mut a = args.clone();
                for j in 0..a.len() {
                    for cand in [0, 1, a[j] / 2, a[j] - a[j].signum()] {
                        if cand == a[j] || cand.abs() > a[j].abs() {
                            continue;
                        }
                        let mut c = a.clone();
                        c[j] = cand;
                        let mut t = best.clone();
                        t.events[i] = Ev::Op {
                            name: name.clone(),
                            args: c.clone(),
                            hex: hex.clone(),
                        };
                        if ctx.ok(&t) {
                            a = c;
                            best = t;
                            break;
                        }
                    }
                }
            }
        }

        // 4. configuration: cache files, document recipe
        if !best.cfg.files.is_empty() {
            let names: Vec<String> = best.cfg.files.keys().cloned().collect();
            for n in names {
                let mut t = best.clone();
                t.cfg.files.remove(&n);
                t.cfg.mtimes.remove(&n);
                if ctx.ok(&t) {
                    best = t;
                }
            }
        }

        let after = (best.events.len(), best.n_bytes());
        if after == before || ctx.used >= ctx.budget {
            break;
        }
    }
    best.origin = format!("{} | minimised with {} candidate executions", best.origin, ctx.used);
    best
}
