//! Deterministic simulation with fault injection for icy_engine. See /verif/DESIGN.md.

mod edit;
mod evidence;
mod exec_load;
mod fsbox;
mod gen_gfx;
mod gen_load;
mod gen_sixel;
mod gen_term;
mod guard;
mod icyfault;
mod minimize;
mod mon_term;
mod monitors;
mod pal;
mod rng;
mod scenario;
mod supervisor;
mod term;
mod trace;
mod worker;

use scenario::Tier;

#[global_allocator]
static ALLOC: guard::CountingAlloc = guard::CountingAlloc;

pub const DEFAULT_SEED: u64 = 20_261_004;

fn seed_from_env() -> u64 {
    std::env::var("VERIF_SEED").ok().and_then(|s| s.trim().parse::<u64>().ok()).unwrap_or(DEFAULT_SEED)
}

fn arg_after(args: &[String], flag: &str) -> Option<String> {
    args.iter().position(|a| a == flag).and_then(|i| args.get(i + 1).cloned())
}

fn main() {
    let args: Vec<String> = std::env::args().collect();
    let code = match args.get(1).map(String::as_str) {
        Some("worker") => {
            let prop = arg_after(&args, "--prop").unwrap_or_default();
            let tier = Tier::parse(&arg_after(&args, "--tier").unwrap_or_default());
            let seed = arg_after(&args, "--seed").and_then(|s| s.parse().ok()).unwrap_or(DEFAULT_SEED);
            let status = arg_after(&args, "--status");
            worker::worker_main(&prop, tier, seed, status.as_deref());
            0
        }
        Some("check") => {
            let prop = args.get(2).cloned().unwrap_or_default();
            let tier = std::env::var("VERIF_TIER").ok().map(|t| Tier::parse(&t)).unwrap_or_else(|| Tier::parse(args.get(3).map(String::as_str).unwrap_or("quick")));
            let tier = if let Some(t) = args.get(3) { Tier::parse(t) } else { tier };
            supervisor::run_check(&prop, tier, seed_from_env())
        }
        Some("selfcheck") => {
            let runs: u64 = args.get(2).and_then(|s| s.parse().ok()).unwrap_or(2000);
            let props: Vec<String> = if args.len() > 3 { args[3..].to_vec() } else { scenario::CLAIMED.iter().map(|s| (*s).to_string()).collect() };
            supervisor::run_selfcheck(&props, runs, seed_from_env())
        }
        Some("replay") => supervisor::run_replay(args.get(2).map(String::as_str).unwrap_or("")),
        Some("gen") => {
            // print the trace of one run (debugging aid)
            let prop = args.get(2).cloned().unwrap_or_default();
            let run: u64 = args.get(3).and_then(|s| s.parse().ok()).unwrap_or(0);
            let tier = Tier::parse(args.get(4).map(String::as_str).unwrap_or("quick"));
            let t = scenario::generate(&prop, tier, seed_from_env(), run);
            println!("{}", serde_json::to_string_pretty(&t).unwrap());
            0
        }
        Some("exec") => {
            // execute a trace file in this very process (debugging aid)
            let text = std::fs::read_to_string(args.get(2).map(String::as_str).unwrap_or("")).unwrap_or_default();
            match serde_json::from_str::<trace::Trace>(&text) {
                Ok(t) => {
                    guard::QUIET.store(false, std::sync::atomic::Ordering::Relaxed);
                    guard::install_panic_hook();
                    worker::warm_up();
                    let o = scenario::execute(&t);
                    println!("OUTCOME {}", serde_json::to_string(&o).unwrap());
                    i32::from(o.violation.is_some())
                }
                Err(e) => {
                    eprintln!("not a trace: {e}");
                    2
                }
            }
        }
        _ => {
            eprintln!("usage: sim check <property> [quick|thorough] | replay <file> | gen <property> <run> | exec <file>");
            2
        }
    };
    std::process::exit(code);
}
