//! Evidence files: what a run actually covered, from the supervisor's counters.

use crate::scenario::Tier;
use crate::worker::Agg;
use serde_json::{json, Value};
use std::collections::BTreeMap;

pub fn level_of(prop: &str) -> &'static str {
    match prop {
        "C02" => "fault_enumeration",
        _ => "exploration",
    }
}

fn rule_of(prop: &str) -> (&'static str, &'static str) {
    // (generation rule, name of the measure that counts distinct non-trivial cases)
    match prop {
        "C14" => (
            "run r < |canonical space| takes the r-th canonical schedule over {arrive i, release i, poll} for k<=3 images with <=2 polls per gap; later runs draw k<=4 (8 thorough) images and a random linear extension with 0..3 polls per gap, every fourth such run is a direct Sixel::parse_from call; payloads are seeded. distinct_nontrivial = distinct event schedules (as strings of A<i>/R<i>/P actually executed) plus distinct payload shape tuples",
            "schedule",
        ),
        "C01" | "C09" | "C10" | "C16" | "C03" | "C20" => (
            "seeded host workload from the per-emulation token tables sent over a simulated line with swarm-configured faults, decode releases and UI polls interleaved; distinct_nontrivial = distinct terminal-state signatures reached (see coverage.measures)",
            "state",
        ),
        "C02" => (
            "base files from the engine's own writers with one or more stored-byte faults applied (short, torn, lost, stale, bit rot, misnamed, misdirected); distinct_nontrivial = distinct (entry point, format, fault kind, position class, result class) tuples",
            "load_class",
        ),
        "C08" => (
            "seeded edit histories with undo/redo interleavings against snapshot model; distinct_nontrivial = distinct operation-kind trigrams plus undo/redo interleaving shapes",
            "history_shape",
        ),
        _ => ("seeded", "state"),
    }
}

#[allow(clippy::too_many_arguments)]
pub fn build(
    prop: &str,
    tier: Tier,
    seed: u64,
    planned_runs: u64,
    workers: usize,
    agg: &Agg,
    wall: f64,
    known_lines: &[String],
    violation_lines: &[String],
    suppressed_known: u64,
    unconfirmed_deaths: u64,
    other_property_deaths: u64,
    death_classes: &BTreeMap<String, u64>,
) -> Value {
    let (rule, main_measure) = rule_of(prop);
    let measures: BTreeMap<String, usize> = agg.sigs.iter().map(|(k, v)| (k.clone(), v.len())).collect();
    let mut distinct: usize = measures.get(main_measure).copied().unwrap_or(0);
    if prop == "C14" {
        distinct += measures.get("shapes").copied().unwrap_or(0);
    }
    if distinct == 0 {
        distinct = measures.values().copied().max().unwrap_or(0);
    }
    let faults: BTreeMap<&String, &u64> = agg.counters.iter().filter(|(k, _)| k.starts_with("fault_")).collect();
    let probes: BTreeMap<&String, &u64> = agg.counters.iter().filter(|(k, _)| k.starts_with("probe_")).collect();
    let samples: Vec<Value> = agg.samples.iter().take(3).map(|(r, t)| json!({"run": r, "trace": t})).collect();
    let mut coverage = json!({
        "evaluations": agg.runs,
        "distinct_nontrivial": distinct,
        "rule": rule,
        "samples": samples,
        "exhaustive": false,
        "planned_runs": planned_runs,
        "events_executed": agg.events,
        "bytes_delivered": agg.bytes,
        "simulated_seconds": agg.sim_ms as f64 / 1000.0,
        "runs_per_hour": if wall > 0.0 { agg.runs as f64 / wall * 3600.0 } else { 0.0 },
        "seeds_per_hour": if wall > 0.0 { 3600.0 / wall } else { 0.0 },
        "workers": workers,
        "measures": measures,
        "faults_fired": faults,
        "probes": probes,
        "counters": agg.counters,
        "maxima": agg.maxima,
        "replays_agreed": agg.replays_agreed,
        "replays_diverged": agg.replays_diverged,
        "sweep_digest": format!("{:016x}", agg.digest),
        "known_findings_reported": known_lines,
        "known_finding_occurrences_suppressed": suppressed_known,
        "violation_lines": violation_lines,
        "worker_death_classes": death_classes,
        "worker_deaths_unconfirmed": unconfirmed_deaths,
        "worker_deaths_not_this_property": other_property_deaths,
        "components": components(prop),
    });
    if prop == "C14" {
        let thorough = tier == crate::scenario::Tier::Thorough;
        let total = crate::gen_sixel::canonical_total(thorough);
        coverage["canonical_schedule_space"] = json!({
            "definition": format!("k<={} images, all orderings of arrivals and releases, 0..2 polls in each of the 2k+1 gaps", crate::gen_sixel::canonical_kmax(thorough)),
            "size": total,
            "swept_by_run_index": planned_runs.min(total),
            "complete": planned_runs >= total,
        });
    }
    if prop == "C02" {
        let bases = crate::scenario::enum_bases(tier);
        coverage["single_fault_sweep"] = json!({
            "definition": "per base file: every truncation length, every position x {flip bit 0, flip bit 7, 0x00, 0xFF, 0x1A}, every aligned 16-byte run zeroed",
            "base_files": bases,
            "quota_per_base": crate::gen_load::ENUM_QUOTA,
            "base_files_swept_completely": measures.get("enum_base").copied().unwrap_or(0),
            "complete": planned_runs >= crate::scenario::enum_runs(tier),
        });
        coverage["truncation_sweep"] = json!({
            "definition": "per base file: every prefix length 0..=len; base files are dealt to the 23 reader kinds in turn (18 extensions, PSF any header, PSF1, TDF, palette, clipboard)",
            "base_files": crate::scenario::trunc_bases(tier),
            "base_files_swept_completely": measures.get("trunc_base").copied().unwrap_or(0),
            "complete": planned_runs >= crate::scenario::trunc_runs(tier),
        });
    }
    let zero_probes: Vec<&String> = agg.counters.iter().filter(|(k, v)| k.starts_with("probe_") && **v == 0).map(|(k, _)| k).collect();
    if !zero_probes.is_empty() {
        coverage["warnings"] = json!(zero_probes);
    }
    json!({
        "property_id": prop,
        "tier": tier.name(),
        "seed": seed,
        "level": level_of(prop),
        "coverage": coverage,
        "assumptions": assumptions(prop),
        "wall_s": wall,
        "violations": violation_lines.len(),
    })
}

fn components(prop: &str) -> Value {
    match prop {
        "C14" => json!({
            "real": ["ansi::Parser (DCS collection, execute_dcs)", "std::thread::spawn + JoinHandle::is_finished/join", "Sixel::parse_from in the engine's own decode threads", "Buffer::update_sixel_threads", "Rectangle::contains_rect"],
            "stub": ["host (workload generator)", "UI loop (poll events placed by the scheduler)", "scheduler: decode threads are parked at the cfg(icy_engine_verif) gate and released one at a time"],
        }),
        "C02" => json!({
            "real": ["Buffer::from_bytes / load_buffer and every format loader", "SauceData::extract", "BitFont::from_bytes", "TheDrawFont::from_tdf_bytes", "Palette::load_palette", "Layer::from_clipboard_data", "the engine's writers (produce the base files)"],
            "stub": ["disk (sector model applying short/torn/lost/stale/bit-rot/misdirected/misnamed faults to stored bytes)"],
        }),
        "C08" => json!({
            "real": ["EditState and every editing operation", "undo/redo stacks, AtomicUndoGuard"],
            "stub": ["user (operation and undo/redo schedule generator)", "reference model (observational snapshots at operation boundaries)"],
        }),
        _ => json!({
            "real": ["BufferParser implementations", "Buffer / Layer / Caret / TerminalState", "sixel decode threads"],
            "stub": ["host (workload generator)", "line (fault-injecting byte link)", "UI loop", "virtual clock / step fuel / allocator budget"],
        }),
    }
}

fn assumptions(prop: &str) -> Vec<String> {
    let mut v = vec![
        "engine built in release profile (wrapping integer arithmetic); a panic that exists only under debug overflow checks is not reported".to_string(),
        "seeded sampling: a clean batch is evidence, not proof".to_string(),
        "HashMap iteration order inside the engine (RandomState) is not controlled; no oracle or generator depends on it".to_string(),
    ];
    match prop {
        "C14" => v.push("'never blocks' is judged by a 5 s watchdog on a call that takes microseconds, confirmed by solo replay; decode threads are real OS threads released one at a time, so the interleaving is decided by the trace".into()),
        "C03" => v.push("step ticks are placed by hand at six central sites; loops touching none of them are only caught by the allocator budget or the 10 s watchdog".into()),
        "C10" => v.push("an invalid char is observed numerically after the fact; relies on release-build behaviour not trapping before the monitor reads it".into()),
        _ => {}
    }
    v
}
