//! Loader executor: hands stored bytes (after disk faults) to the real loader entry points.

use crate::guard;
use crate::trace::{from_hex, Ev, Outcome, RunStats, Trace, Violation};
use icy_engine::verif_hooks as hooks;
use icy_engine::{BitFont, Buffer, Layer, Palette, PaletteFormat, SauceData, TextPane, TheDrawFont};
use std::panic::{catch_unwind, AssertUnwindSafe};
use std::path::Path;
use std::sync::{Arc, Mutex};
use std::time::Duration;

pub const C03_FILE_FUEL: u64 = 200_000_000;

pub enum Loaded {
    Buffer(Box<Buffer>),
    Layer(Box<Layer>),
    Font(Box<BitFont>),
    Fonts(Vec<TheDrawFont>),
    Other(String),
    Err(String),
    None,
}

/// File names travel as strings in a trace; `hex:<bytes>` stands for a name whose bytes are not UTF-8.
fn path_of(name: &str) -> std::path::PathBuf {
    use std::os::unix::ffi::OsStringExt;
    match name.strip_prefix("hex:") {
        Some(h) => std::path::PathBuf::from(std::ffi::OsString::from_vec(from_hex(h))),
        None => std::path::PathBuf::from(name),
    }
}

pub fn call_entry(entry: &str, name: &str, bytes: &[u8]) -> Loaded {
    match entry {
        "Buffer::from_bytes" => match Buffer::from_bytes(&path_of(name), true, bytes) {
            Ok(b) => Loaded::Buffer(Box::new(b)),
            Err(e) => Loaded::Err(e.to_string()),
        },
        "SauceData::extract" => match SauceData::extract(bytes) {
            Ok(Some(s)) => Loaded::Other(format!("sauce {}x{} comments={}", s.buffer_size.width, s.buffer_size.height, s.comments.len())),
            Ok(None) => Loaded::None,
            Err(e) => Loaded::Err(e.to_string()),
        },
        "BitFont::from_bytes" => match BitFont::from_bytes(name.to_string(), bytes) {
            Ok(f) => Loaded::Font(Box::new(f)),
            Err(e) => Loaded::Err(e.to_string()),
        },
        "TheDrawFont::from_tdf_bytes" => match TheDrawFont::from_tdf_bytes(bytes) {
            Ok(f) => Loaded::Fonts(f),
            Err(e) => Loaded::Err(e.to_string()),
        },
        "Layer::from_clipboard_data" => match Layer::from_clipboard_data(bytes) {
            Some(l) => Loaded::Layer(Box::new(l)),
            None => Loaded::None,
        },
        e if e.starts_with("Palette::load_palette:") => {
            let fmt = match &e["Palette::load_palette:".len()..] {
                "hex" => PaletteFormat::Hex,
                "pal" => PaletteFormat::Pal,
                "gpl" => PaletteFormat::Gpl,
                "txt" => PaletteFormat::Txt,
                "ase" => PaletteFormat::Ase,
                _ => PaletteFormat::Ice,
            };
            match Palette::load_palette(&fmt, bytes) {
                Ok(p) => Loaded::Other(format!("palette n={}", p.len())),
                Err(e) => Loaded::Err(e.to_string()),
            }
        }
        _ => Loaded::Err(format!("harness: unknown entry {entry}")),
    }
}

fn pos_class(bytes_len: usize, fault: &str) -> &'static str {
    // where the (first) fault landed: magic/header, body, tail
    let at = fault.split_whitespace().find_map(|w| w.strip_prefix("at=").or_else(|| w.strip_prefix("keep=")).and_then(|v| v.parse::<usize>().ok()));
    match at {
        Some(a) if a < 8 => "magic",
        Some(a) if a < 64 => "header",
        Some(a) if a + 140 >= bytes_len => "tail",
        Some(_) => "body",
        None => "whole",
    }
}

pub fn run_load(trace: &Trace) -> Outcome {
    let mut stats = RunStats::default();
    let mut violation: Option<Violation> = None;
    let mut ended = String::from("completed");
    let mut digest: u64 = 0x1234_5678;
    let prop = trace.property.as_str();
    let cfg = &trace.cfg;
    let fuel = if cfg.fuel > 0 {
        cfg.fuel
    } else if prop == "C03" {
        C03_FILE_FUEL
    } else {
        crate::term::DEFAULT_FUEL * 4
    };
    let mem = if cfg.mem_mib == 0 { crate::term::DEFAULT_MEM_MIB } else { cfg.mem_mib };

    guard::take_panics();
    for (ei, ev) in trace.events.iter().enumerate() {
        stats.events += 1;
        guard::phase(1);
        match ev {
            Ev::Load { entry, name, hex } => {
                let bytes = from_hex(hex);
                stats.bytes += bytes.len() as u64;
                hooks::gate_activate(fuel);
                hooks::clock_install(cfg.clock_ms);
                // scheduling point: every virtual sleep of the loader's drain loop
                let sched: Arc<Mutex<std::collections::VecDeque<i64>>> = Arc::new(Mutex::new(cfg.doc.iter().copied().collect()));
                let sched2 = sched.clone();
                hooks::set_on_sleep(Some(Box::new(move |_d| {
                    let item = sched2.lock().map(|mut q| q.pop_front()).unwrap_or(None);
                    let n = hooks::gate_tickets();
                    match item {
                        Some(t) if t >= 0 => {
                            let t = t as usize;
                            if t < n && hooks::gate_release(t) {
                                let _ = hooks::gate_wait_done(t, Duration::from_secs(20));
                            }
                        }
                        Some(_) => {}
                        None => {
                            for t in 0..n {
                                if hooks::gate_release(t) {
                                    let _ = hooks::gate_wait_done(t, Duration::from_secs(20));
                                }
                            }
                        }
                    }
                    // give the released thread time to leave its closure
                    let t0 = std::time::Instant::now();
                    while t0.elapsed() < Duration::from_micros(150) {
                        std::thread::yield_now();
                    }
                })));
                guard::mem_begin((mem as usize) << 20, (crate::term::ONE_ALLOC_MIB as usize) << 20);
                hooks::set_fuel(fuel, crate::term::DEFAULT_MAX_DEPTH);
                let r = catch_unwind(AssertUnwindSafe(|| call_entry(entry, name, &bytes)));
                let used = hooks::fuel_used();
                hooks::set_fuel(hooks::UNLIMITED, u32::MAX);
                // let every decode finish before going on
                for t in 0..hooks::gate_tickets() {
                    if hooks::gate_release(t) {
                        let _ = hooks::gate_wait_done(t, Duration::from_secs(20));
                    }
                }
                let tickets = hooks::gate_tickets();
                let (_sleeps, slept_ms) = hooks::slept();
                stats.sim_ms += slept_ms;
                hooks::set_on_sleep(None);
                hooks::gate_deactivate();
                hooks::clock_remove();
                stats.max("fuel_per_load", used);
                if tickets > 0 {
                    stats.count("probe_loader_started_decodes");
                }
                let fault0 = trace.faults.first().map(String::as_str).unwrap_or("");
                let res_class;
                match r {
                    Err(_) => {
                        let recs = guard::take_panics();
                        let (v, e) = crate::term::classify_panic(trace, &recs, ei, &mut stats);
                        violation = v;
                        ended = e;
                        res_class = "panic";
                    }
                    Ok(l) => {
                        let decode_panics = guard::take_panics();
                        if !decode_panics.is_empty() {
                            stats.count("decode_thread_panicked");
                        }
                        match &l {
                            Loaded::Buffer(b) => {
                                res_class = "ok";
                                digest ^= (b.get_width() as u64) << 32 | b.get_height() as u64;
                                digest = digest.rotate_left(7) ^ b.layers.len() as u64;
                                stats.max("loaded_width", b.get_width().max(0) as u64);
                                stats.max("loaded_height", b.get_height().max(0) as u64);
                                if prop == "C10" {
                                    violation = crate::mon_term::check_unicode("C10", b, ei, &format!("{entry}({name})"))
                                        .or_else(|| crate::mon_term::derived_strings("C10", b, ei, &format!("{entry}({name})")));
                                }
                            }
                            Loaded::Layer(lay) => {
                                res_class = "ok";
                                digest ^= (lay.get_width() as u64) << 32 | lay.get_height() as u64;
                                if prop == "C10" {
                                    for (y, line) in lay.lines.iter().enumerate() {
                                        for (x, c) in line.chars.iter().enumerate() {
                                            if !crate::mon_term::is_scalar(c.ch as u32) {
                                                violation = Some(crate::monitors::inv(
                                                    "C10",
                                                    "invalid_char",
                                                    format!("{entry}: cell ({x},{y}) holds U+{:X}, not a Unicode scalar value", c.ch as u32),
                                                    ei,
                                                ));
                                            }
                                        }
                                    }
                                }
                            }
                            Loaded::Font(f) => {
                                res_class = "ok";
                                digest ^= crate::rng::fnv(&format!("font {}x{} n={}", f.size.width, f.size.height, f.length));
                                stats.max("loaded_glyphs", f.glyphs.len() as u64);
                                if prop == "C10" {
                                    violation = crate::mon_term::check_font("C10", f, ei, &format!("{entry}({name})"));
                                }
                            }
                            Loaded::Fonts(fs) => {
                                res_class = "ok";
                                digest ^= crate::rng::fnv(&format!("tdf fonts={}", fs.len()));
                                if prop == "C10" {
                                    for f in fs {
                                        if std::str::from_utf8(f.name.as_bytes()).is_err() {
                                            violation = Some(crate::monitors::inv("C10", "invalid_utf8", format!("{entry}: TheDraw font name is not valid UTF-8"), ei));
                                        }
                                    }
                                }
                            }
                            Loaded::Other(s) => {
                                res_class = "ok";
                                digest ^= crate::rng::fnv(s);
                            }
                            Loaded::Err(m) => {
                                res_class = "err";
                                if m.starts_with("harness:") {
                                    ended = format!("harness_error:{m}");
                                }
                                digest ^= crate::rng::fnv(crate::term::err_class(m));
                                stats.sig("err_variant", crate::rng::fnv(crate::term::err_class(m)));
                            }
                            Loaded::None => {
                                res_class = "none";
                            }
                        }
                        if violation.is_some() {
                            ended = "violation".into();
                        }
                        if !trace.faults.is_empty() && res_class == "ok" {
                            stats.count("probe_load_ok_after_fault");
                        }
                        drop(l);
                    }
                }
                let (peak, largest) = guard::mem_end();
                stats.max("heap_peak_bytes", peak as u64);
                stats.max("largest_alloc_bytes", largest as u64);
                let ext = name.rsplit_once('.').map_or("none", |x| x.1);
                let kind = fault0.split_whitespace().next().unwrap_or("none");
                stats.sig(
                    "load_class",
                    crate::rng::fnv(&format!("{entry}/{ext}/{kind}/{}/{res_class}", pos_class(bytes.len(), fault0))),
                );
                stats.count(&format!("load_result_{res_class}"));
            }
            Ev::Fs { kind } => {
                let dir = crate::fsbox::fresh_dir("fs");
                let path = match kind.as_str() {
                    "missing" => dir.join("nothing-here.ans"),
                    "is_dir" => {
                        let p = dir.join("dir.ans");
                        let _ = std::fs::create_dir_all(&p);
                        p
                    }
                    "empty" => {
                        let p = dir.join("empty.xb");
                        let _ = std::fs::write(&p, b"");
                        p
                    }
                    _ => {
                        let p = dir.join("noextension");
                        let _ = std::fs::write(&p, b"hello\r\n");
                        p
                    }
                };
                hooks::set_fuel(fuel, crate::term::DEFAULT_MAX_DEPTH);
                let r = catch_unwind(AssertUnwindSafe(|| Buffer::load_buffer(&path, true).map(|b| (b.get_width(), b.get_height())).map_err(|e| e.to_string())));
                hooks::set_fuel(hooks::UNLIMITED, u32::MAX);
                let _ = std::fs::remove_dir_all(&dir);
                match r {
                    Err(_) => {
                        let recs = guard::take_panics();
                        let (v, e) = crate::term::classify_panic(trace, &recs, ei, &mut stats);
                        violation = v;
                        ended = e;
                    }
                    Ok(Ok(sz)) => {
                        stats.count("load_result_ok");
                        digest ^= sz.0 as u64;
                    }
                    Ok(Err(m)) => {
                        stats.count("load_result_err");
                        digest ^= crate::rng::fnv(crate::term::err_class(&m));
                    }
                }
                stats.sig("load_class", crate::rng::fnv(&format!("fs/{kind}")));
            }
            _ => {
                ended = "harness_error:event not valid in a load scenario".into();
            }
        }
        if violation.is_some() || ended != "completed" {
            break;
        }
    }
    guard::phase(0);
    Outcome {
        violation,
        ended,
        stats,
        digest,
    }
}

// ------------------------------------------------------------------ C14, loader leg

type Img = (i32, i32, i32, i32, u64);

/// Loads `bytes` as an ANSI file with the decode threads released according to `sched` (one item per
/// virtual sleep of the loader's drain loop; -1 = idle sleep; when the list is exhausted everything that
/// is still parked is released). Returns the image layers in layer order, or the error / panic class.
fn load_images(name: &str, bytes: &[u8], sched: &[i64], fuel: u64, clock_ms: i64) -> Result<Vec<Img>, String> {
    hooks::gate_activate(fuel);
    hooks::clock_install(clock_ms);
    let q: Arc<Mutex<std::collections::VecDeque<i64>>> = Arc::new(Mutex::new(sched.iter().copied().collect()));
    let q2 = q.clone();
    hooks::set_on_sleep(Some(Box::new(move |_d| {
        let item = q2.lock().map(|mut q| q.pop_front()).unwrap_or(None);
        let n = hooks::gate_tickets();
        match item {
            Some(t) if t >= 0 => {
                let t = t as usize;
                if t < n && hooks::gate_release(t) {
                    let _ = hooks::gate_wait_done(t, Duration::from_secs(20));
                }
            }
            Some(_) => {}
            None => {
                for t in 0..n {
                    if hooks::gate_release(t) {
                        let _ = hooks::gate_wait_done(t, Duration::from_secs(20));
                    }
                }
            }
        }
        let t0 = std::time::Instant::now();
        while t0.elapsed() < Duration::from_micros(300) {
            std::thread::yield_now();
        }
    })));
    hooks::set_fuel(fuel, crate::term::DEFAULT_MAX_DEPTH);
    let r = catch_unwind(AssertUnwindSafe(|| Buffer::from_bytes(Path::new(name), true, bytes)));
    hooks::set_fuel(hooks::UNLIMITED, u32::MAX);
    for t in 0..hooks::gate_tickets() {
        if hooks::gate_release(t) {
            let _ = hooks::gate_wait_done(t, Duration::from_secs(20));
        }
    }
    hooks::set_on_sleep(None);
    hooks::gate_deactivate();
    hooks::clock_remove();
    match r {
        Err(_) => {
            let recs = guard::take_panics();
            Err(format!("panic:{}", recs.first().map(|r| r.function.clone()).unwrap_or_default()))
        }
        Ok(Err(_)) => {
            guard::take_panics();
            Err("err".into())
        }
        Ok(Ok(b)) => {
            guard::take_panics();
            let mut v = Vec::new();
            for l in b.layers.iter().skip(1) {
                for s in &l.sixels {
                    let o = l.get_offset();
                    v.push((o.x + s.position.x, o.y + s.position.y, s.get_width(), s.get_height(), crate::rng::fnv_bytes(&s.picture_data)));
                }
            }
            Ok(v)
        }
    }
}

/// (position, payload) of every sixel DCS in a file written by `gen_sixel::gen_c14_load`.
fn scan_sixels(bytes: &[u8]) -> Vec<(icy_engine::Position, String)> {
    let mut out = Vec::new();
    let mut pos = icy_engine::Position::default();
    let mut i = 0;
    while i < bytes.len() {
        if bytes[i] == 0x1b && bytes.get(i + 1) == Some(&b'[') {
            // CSI r;c H
            let mut j = i + 2;
            let mut nums = vec![0i32];
            while j < bytes.len() && (bytes[j].is_ascii_digit() || bytes[j] == b';') {
                if bytes[j] == b';' {
                    nums.push(0);
                } else if let Some(l) = nums.last_mut() {
                    *l = l.saturating_mul(10).saturating_add(i32::from(bytes[j] - b'0'));
                }
                j += 1;
            }
            if bytes.get(j) == Some(&b'H') && nums.len() == 2 {
                pos = icy_engine::Position::new((nums[1] - 1).max(0), (nums[0] - 1).max(0));
            }
            i = j + 1;
        } else if bytes[i] == 0x1b && bytes.get(i + 1) == Some(&b'P') {
            let mut j = i + 2;
            while j + 1 < bytes.len() && !(bytes[j] == 0x1b && bytes[j + 1] == b'\\') {
                j += 1;
            }
            let dcs: String = bytes[i + 2..j.min(bytes.len())].iter().map(|b| *b as char).collect();
            if let Some(p) = crate::monitors::sixel_payload(&dcs) {
                out.push((pos, p.to_string()));
            }
            i = j + 2;
        } else {
            i += 1;
        }
    }
    out
}

pub fn run_c14_load(trace: &Trace) -> Outcome {
    let mut stats = RunStats::default();
    let mut violation = None;
    let mut digest = 99u64;
    guard::phase(1);
    guard::take_panics();
    for (ei, ev) in trace.events.iter().enumerate() {
        stats.events += 1;
        let Ev::Load { name, hex, .. } = ev else { continue };
        let bytes = from_hex(hex);
        stats.bytes += bytes.len() as u64;
        let fuel = crate::term::DEFAULT_DECODE_FUEL;
        guard::mem_begin(512 << 20, 128 << 20);
        let sixels = scan_sixels(&bytes);
        let k = sixels.len();
        // reference: arrival order + shadowing over the reference decodes
        let refs: Vec<crate::monitors::RefImage> = sixels.iter().map(|(p, s)| crate::monitors::ref_decode(*p, s)).collect();
        let expect: Result<Vec<Img>, String> = if refs.iter().any(|r| !r.ok) {
            Err("err".into())
        } else {
            let mut list: Vec<Img> = Vec::new();
            for r in &refs {
                let (nx0, ny0) = (i64::from(r.x) * 8, i64::from(r.y) * 16);
                let (nx1, ny1) = (nx0 + i64::from(r.w), ny0 + i64::from(r.h));
                list.retain(|o| {
                    let (ox0, oy0) = (i64::from(o.0) * 8, i64::from(o.1) * 16);
                    !(nx0 <= ox0 && ny0 <= oy0 && ox0 + i64::from(o.2) <= nx1 && oy0 + i64::from(o.3) <= ny1)
                });
                list.push((r.x, r.y, r.w, r.h, r.hash));
            }
            // image layers, bottom to top, in arrival order: what arrived later is drawn later
            Ok(list)
        };
        let in_order: Vec<i64> = (0..k as i64).collect();
        let runs: [(&str, Vec<i64>); 3] = [("trace schedule", trace.cfg.doc.clone()), ("all finished before the first poll", vec![]), ("one per poll in arrival order", in_order)];
        for (label, sched) in &runs {
            let got = load_images(name, &bytes, sched, fuel, trace.cfg.clock_ms);
            stats.count("loader_runs");
            if let Ok(v) = &got {
                digest = digest.wrapping_mul(31).wrapping_add(v.len() as u64);
                for s in v {
                    if let Some(vi) = crate::monitors::check_rect("C14", "image layer after loading", s.2, s.3, (i64::from(s.2) * i64::from(s.3) * 4).max(0) as usize, ei) {
                        let _ = vi;
                    }
                }
            }
            if got != expect {
                let show = |r: &Result<Vec<Img>, String>| match r {
                    Ok(v) => format!("{} images [{}]", v.len(), v.iter().map(|i| format!("({},{} {}x{} #{:08x})", i.0, i.1, i.2, i.3, i.4 as u32)).collect::<Vec<_>>().join(" ")),
                    Err(e) => format!("error ({e})"),
                };
                violation = Some(crate::monitors::inv(
                    "C14",
                    "loader_images",
                    format!("loading the file with {label} ({sched:?}) gives {} but arrival order and shadowing give {}", show(&got), show(&expect)),
                    ei,
                ));
                break;
            }
        }
        guard::mem_end();
        if k >= 2 {
            stats.count("probe_loader_two_or_more_images");
        }
        if violation.is_some() {
            break;
        }
    }
    let (_n, ms) = (0, 0);
    stats.sim_ms += ms;
    stats.sig("schedule", crate::rng::fnv(&format!("load{:?}", trace.cfg.doc)));
    guard::phase(0);
    Outcome {
        ended: if violation.is_some() { "violation".into() } else { "completed".into() },
        violation,
        stats,
        digest,
    }
}
