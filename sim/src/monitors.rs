//! Invariant monitors: what is evaluated after every event of a terminal session, per property.

use crate::term::{EvResult, Session};
use crate::trace::{RunStats, Trace, Violation};
use icy_engine::verif_hooks::TicketState;
use icy_engine::{Sixel, TextPane};
use std::panic::{catch_unwind, AssertUnwindSafe};

pub trait Monitor {
    fn after(&mut self, s: &Session, at_event: usize, r: &EvResult, stats: &mut RunStats) -> Option<Violation>;
    fn at_end(&mut self, _s: &Session, _at_event: usize, _stats: &mut RunStats) -> Option<Violation> {
        None
    }
}

pub struct NoMonitor;
impl Monitor for NoMonitor {
    fn after(&mut self, _s: &Session, _at: usize, _r: &EvResult, _stats: &mut RunStats) -> Option<Violation> {
        None
    }
}

pub fn budget_class(trace: &Trace, _at_event: usize) -> String {
    trace
        .labels
        .iter()
        .find_map(|l| l.strip_prefix("target=").map(str::to_string))
        .unwrap_or_else(|| "unlabelled".to_string())
}

pub fn for_trace(trace: &Trace, s: &Session) -> Box<dyn Monitor> {
    match trace.property.as_str() {
        "C14" => Box::new(SixelMonitor::default()),
        "C09" => Box::new(crate::mon_term::CaretMonitor::new(trace, s)),
        "C10" => Box::new(crate::mon_term::UnicodeMonitor::new(trace)),
        "C16" => Box::new(crate::mon_term::PaletteMonitor::new(trace, s)),
        "C20" => Box::new(crate::mon_term::CanvasMonitor::new(trace)),
        "C01" | "C03" => Box::new(crate::mon_term::ReachMonitor::new(trace)),
        _ => Box::new(NoMonitor),
    }
}

pub fn inv(prop: &str, name: &str, detail: String, at_event: usize) -> Violation {
    Violation {
        property: prop.to_string(),
        kind: "invariant".into(),
        class: format!("invariant:{name}"),
        detail,
        at_event,
    }
}

// ------------------------------------------------------------------ C14

#[derive(Clone, Debug, PartialEq)]
pub struct RefImage {
    pub ok: bool,
    pub panicked: bool,
    pub x: i32,
    pub y: i32,
    pub w: i32,
    pub h: i32,
    pub hash: u64,
    pub bytes: usize,
}

/// Reference decode: the real decoder, called synchronously by the harness.
pub fn ref_decode(pos: icy_engine::Position, payload: &str) -> RefImage {
    let r = catch_unwind(AssertUnwindSafe(|| Sixel::parse_from(pos, 1, 1, [0, 0, 0, 0], payload)));
    match r {
        Ok(Ok(sx)) => RefImage {
            ok: true,
            panicked: false,
            x: sx.position.x,
            y: sx.position.y,
            w: sx.get_width(),
            h: sx.get_height(),
            hash: crate::rng::fnv_bytes(&sx.picture_data),
            bytes: sx.picture_data.len(),
        },
        Ok(Err(_)) => RefImage {
            ok: false,
            panicked: false,
            x: pos.x,
            y: pos.y,
            w: 0,
            h: 0,
            hash: 0,
            bytes: 0,
        },
        Err(_) => {
            crate::guard::take_panics();
            RefImage {
                ok: false,
                panicked: true,
                x: pos.x,
                y: pos.y,
                w: 0,
                h: 0,
                hash: 0,
                bytes: 0,
            }
        }
    }
}

/// Splits a DCS string as the engine does: leading digits and ';', then 'q', then the sixel data.
pub fn sixel_payload(dcs: &str) -> Option<&str> {
    let i = dcs.bytes().take_while(|b| b.is_ascii_digit() || *b == b';').count();
    if dcs[i..].starts_with('q') {
        Some(&dcs[i + 1..])
    } else {
        None
    }
}

/// Declared raster size and the extent of the data, for payloads simple enough to scan
/// (one leading raster attribute with four numbers, repeats only in front of data characters).
pub fn raster_and_extent(payload: &str) -> Option<(i32, i32, i32)> {
    let b = payload.as_bytes();
    if b.first() != Some(&b'"') {
        return None;
    }
    let mut i = 1;
    let mut nums: Vec<i64> = vec![0];
    let mut any_digit = false;
    while i < b.len() && (b[i].is_ascii_digit() || b[i] == b';') {
        if b[i] == b';' {
            nums.push(0);
        } else {
            any_digit = true;
            let l = nums.last_mut()?;
            *l = (*l * 10 + i64::from(b[i] - b'0')).min(i64::from(i32::MAX));
        }
        i += 1;
    }
    if !any_digit || nums.len() != 4 {
        return None;
    }
    let (w, h) = (nums[2] as i32, nums[3] as i32);
    let mut x: i64 = 0;
    let mut max_x: i64 = 0;
    while i < b.len() {
        match b[i] {
            b'"' => return None,
            b'#' => {
                i += 1;
                while i < b.len() && (b[i].is_ascii_digit() || b[i] == b';') {
                    i += 1;
                }
                continue;
            }
            b'!' => {
                i += 1;
                let mut n: i64 = 0;
                let mut any = false;
                while i < b.len() && b[i].is_ascii_digit() {
                    n = (n * 10 + i64::from(b[i] - b'0')).min(i64::from(i32::MAX));
                    any = true;
                    i += 1;
                }
                if !any || i >= b.len() || !(b'?'..=b'~').contains(&b[i]) {
                    return None;
                }
                x += n;
                max_x = max_x.max(x);
            }
            b'$' => x = 0,
            b'-' => x = 0,
            b'?'..=b'~' => {
                x += 1;
                max_x = max_x.max(x);
            }
            _ => return None,
        }
        i += 1;
    }
    Some((w, h, max_x.min(i64::from(i32::MAX)) as i32))
}

pub fn check_rect(prop: &str, what: &str, w: i32, h: i32, bytes: usize, at: usize) -> Option<Violation> {
    if w < 0 || h < 0 || (w as i64) * (h as i64) * 4 != bytes as i64 {
        return Some(inv(
            prop,
            "sixel_rect",
            format!("{what}: picture_data holds {bytes} bytes for a {w} x {h} image (expected {})", (w as i64) * (h as i64) * 4),
            at,
        ));
    }
    None
}

#[derive(Default)]
pub struct SixelMonitor {
    refs: Vec<RefImage>,
    last_d: usize,
    polls_since_all_done: usize,
    schedule: String,
    /// arrivals with an ordinal below this came before the last erase-display of the stream: whether they
    /// had been shown or were still decoding, they are gone
    void_before: usize,
}

/// Arrivals that were not dropped from the engine's queue by an erase, in arrival order.
fn live(s: &Session) -> impl Iterator<Item = &crate::term::Arrival> {
    s.arrivals.iter().filter(|a| !a.cancelled)
}

impl SixelMonitor {
    fn model(&self, s: &Session, d: usize, fw: i32, fh: i32) -> Vec<(i32, i32, i32, i32, u64)> {
        let mut list: Vec<(i32, i32, i32, i32, u64)> = Vec::new();
        for a in live(s).take(d) {
            if a.ordinal < self.void_before {
                continue;
            }
            let Some(r) = self.refs.get(a.ordinal) else { continue };
            if !r.ok {
                continue;
            }
            // pixel rectangle of the new image
            let (nx0, ny0) = (i64::from(r.x) * i64::from(fw), i64::from(r.y) * i64::from(fh));
            let (nx1, ny1) = (nx0 + i64::from(r.w), ny0 + i64::from(r.h));
            list.retain(|o| {
                let (ox0, oy0) = (i64::from(o.0) * i64::from(fw), i64::from(o.1) * i64::from(fh));
                let (ox1, oy1) = (ox0 + i64::from(o.2), oy0 + i64::from(o.3));
                let covered = nx0 <= ox0 && ny0 <= oy0 && ox1 <= nx1 && oy1 <= ny1;
                !covered
            });
            list.push((r.x, r.y, r.w, r.h, r.hash));
        }
        list
    }

    fn compare(&self, s: &Session, at: usize, stats: &mut RunStats) -> Option<Violation> {
        let d = s.consumed;
        if d < self.last_d {
            return Some(inv("C14", "poll_count_decreased", format!("decodes consumed went from {} to {d}", self.last_d), at));
        }
        // nothing is delivered before it is decoded, nothing out of order
        let finished_prefix = live(s).take_while(|a| a.finished.is_some()).count();
        if d > finished_prefix {
            return Some(inv(
                "C14",
                "poll_delivered_unfinished",
                format!("{d} decodes consumed but only the first {finished_prefix} have finished"),
                at,
            ));
        }
        let fd = s.buf.get_font_dimensions();
        let want = self.model(s, d, fd.width, fd.height);
        let have: Vec<(i32, i32, i32, i32, u64)> = s.buf.layers[0]
            .sixels
            .iter()
            .map(|x| (x.position.x, x.position.y, x.get_width(), x.get_height(), crate::rng::fnv_bytes(&x.picture_data)))
            .collect();
        for x in &s.buf.layers[0].sixels {
            if let Some(v) = check_rect("C14", "delivered image", x.get_width(), x.get_height(), x.picture_data.len(), at) {
                return Some(v);
            }
        }
        if want != have {
            let fmt = |l: &Vec<(i32, i32, i32, i32, u64)>| {
                l.iter().map(|i| format!("({},{} {}x{} #{:08x})", i.0, i.1, i.2, i.3, i.4 as u32)).collect::<Vec<_>>().join(" ")
            };
            let name = if have.len() > want.len() {
                "sixel_extra_image"
            } else if have.len() < want.len() {
                "sixel_lost_image"
            } else {
                "sixel_order"
            };
            return Some(inv(
                "C14",
                name,
                format!("after {d} consumed decodes the screen shows [{}] but arrival order and shadowing give [{}]", fmt(&have), fmt(&want)),
                at,
            ));
        }
        if want.len() < live(s).take(d).filter(|a| a.ordinal >= self.void_before && self.refs.get(a.ordinal).map(|r| r.ok).unwrap_or(false)).count() {
            stats.count("probe_shadowing_removed_image");
        }
        None
    }
}

impl Monitor for SixelMonitor {
    fn after(&mut self, s: &Session, at: usize, r: &EvResult, stats: &mut RunStats) -> Option<Violation> {
        match r {
            EvResult::Byte(_, _) => {
                while self.refs.len() < s.arrivals.len() {
                    let a = &s.arrivals[self.refs.len()];
                    self.schedule.push_str(&format!("A{} ", a.ordinal));
                    let Some(dcs) = &a.dcs else {
                        // cannot build the reference for this arrival: harness limitation, not a verdict
                        stats.count("arrival_without_dcs_snapshot");
                        self.refs.push(RefImage {
                            ok: false,
                            panicked: false,
                            x: 0,
                            y: 0,
                            w: 0,
                            h: 0,
                            hash: 0,
                            bytes: 0,
                        });
                        continue;
                    };
                    let payload = sixel_payload(dcs).unwrap_or("");
                    let rf = ref_decode(a.pos, payload);
                    stats.count(if rf.ok { "decode_ok" } else { "decode_err" });
                    if rf.ok {
                        if let Some(v) = check_rect("C14", "Sixel::parse_from", rf.w, rf.h, rf.bytes, at) {
                            return Some(v);
                        }
                        if let Some((w, h, extent)) = raster_and_extent(payload) {
                            if w >= 1 && h >= 1 && extent <= w {
                                stats.count("raster_clause_checked");
                                if rf.w != w || rf.h != h {
                                    return Some(inv(
                                        "C14",
                                        "sixel_raster_size",
                                        format!("payload declares {w} x {h}, data extent {extent} fits, but the image is {} x {}", rf.w, rf.h),
                                        at,
                                    ));
                                }
                            }
                        }
                    }
                    self.refs.push(rf);
                }
                // erase display (ESC [ 2 J) seen in the input itself, not inferred from the engine's queue:
                // everything that arrived before it is gone, shown or not
                if let EvResult::Byte(b'J', _) = r {
                    let n = s.recent.len();
                    if n >= 4 && s.recent.iter().skip(n - 4).copied().eq([0x1b, b'[', b'2', b'J']) {
                        self.schedule.push_str("E ");
                        self.void_before = s.arrivals.len();
                        stats.count("erase_display_seen");
                        if live(s).count() > s.consumed {
                            return Some(inv(
                                "C14",
                                "erase_kept_pending_decodes",
                                format!("after erase display {} decodes that arrived before it are still queued and would be shown after it", live(s).count() - s.consumed),
                                at,
                            ));
                        }
                        if !s.buf.layers[0].sixels.is_empty() {
                            return Some(inv("C14", "erase_kept_images", format!("after erase display {} images are still on the screen", s.buf.layers[0].sixels.len()), at));
                        }
                        if s.arrivals.iter().any(|a| a.cancelled) {
                            stats.count("probe_erase_dropped_pending_decodes");
                        }
                    }
                }
                None
            }
            EvResult::Release(t, st) => {
                self.schedule.push_str(&format!("R{t} "));
                if let (Some(rf), Some(st)) = (self.refs.get(*t), st) {
                    if rf.panicked != (*st == TicketState::Panicked) {
                        stats.count("decode_thread_vs_reference_panic_mismatch");
                    }
                }
                if live(s).all(|a| a.finished.is_some()) {
                    self.polls_since_all_done = 0;
                }
                // probe: a later decode finished while the head has not
                let head_unfinished = s.queue.front().map(|q| s.arrivals[q.ordinal()].finished.is_none()).unwrap_or(false);
                if head_unfinished {
                    stats.count("probe_later_finished_before_head");
                }
                None
            }
            EvResult::Poll(_) => {
                self.schedule.push_str("P ");
                let head_unfinished = s.queue.front().map(|q| s.arrivals[q.ordinal()].finished.is_none()).unwrap_or(false);
                let later_finished = s.queue.iter().skip(1).any(|q| s.arrivals[q.ordinal()].finished.is_some());
                if head_unfinished {
                    stats.count("probe_poll_with_head_unfinished");
                    if later_finished {
                        stats.count("probe_poll_head_unfinished_later_finished");
                    }
                }
                let v = self.compare(s, at, stats);
                self.last_d = s.consumed;
                if live(s).all(|a| a.finished.is_some()) {
                    self.polls_since_all_done += 1;
                }
                v
            }
            _ => None,
        }
    }

    fn at_end(&mut self, s: &Session, at: usize, stats: &mut RunStats) -> Option<Violation> {
        stats.sig("schedule", crate::rng::fnv(&self.schedule));
        let k = live(s).count();
        if k > 0 && live(s).all(|a| a.finished.is_some()) && self.polls_since_all_done >= k + 1 {
            stats.count("liveness_checked");
            if s.consumed != k {
                return Some(inv(
                    "C14",
                    "poll_liveness",
                    format!("all {k} decodes had finished and {} polls followed, but only {} were consumed", self.polls_since_all_done, s.consumed),
                    at,
                ));
            }
        }
        None
    }
}
