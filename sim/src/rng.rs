//! One integer decides everything: SplitMix64 seeding a xoshiro256** stream per (seed, property, run).

#[derive(Clone)]
pub struct Rng {
    s: [u64; 4],
}

fn splitmix(x: &mut u64) -> u64 {
    *x = x.wrapping_add(0x9E37_79B9_7F4A_7C15);
    let mut z = *x;
    z = (z ^ (z >> 30)).wrapping_mul(0xBF58_476D_1CE4_E5B9);
    z = (z ^ (z >> 27)).wrapping_mul(0x94D0_49BB_1331_11EB);
    z ^ (z >> 31)
}

pub fn fnv(s: &str) -> u64 {
    fnv_bytes(s.as_bytes())
}

pub fn fnv_bytes(b: &[u8]) -> u64 {
    let mut h: u64 = 0xcbf2_9ce4_8422_2325;
    for x in b {
        h ^= u64::from(*x);
        h = h.wrapping_mul(0x0100_0000_01b3);
    }
    h
}

pub fn mix(a: u64, b: u64) -> u64 {
    let mut x = a ^ b.rotate_left(32) ^ 0x5851_F42D_4C95_7F2D;
    splitmix(&mut x)
}

impl Rng {
    pub fn new(seed: u64) -> Self {
        let mut x = seed;
        let s = [splitmix(&mut x), splitmix(&mut x), splitmix(&mut x), splitmix(&mut x)];
        Rng { s }
    }

    /// The stream of run `run` of property `prop` under `seed`.
    pub fn for_run(seed: u64, prop: &str, run: u64) -> Self {
        Rng::new(mix(mix(seed, fnv(prop)), run))
    }

    pub fn next_u64(&mut self) -> u64 {
        let r = self.s[1].wrapping_mul(5).rotate_left(7).wrapping_mul(9);
        let t = self.s[1] << 17;
        self.s[2] ^= self.s[0];
        self.s[3] ^= self.s[1];
        self.s[1] ^= self.s[2];
        self.s[0] ^= self.s[3];
        self.s[2] ^= t;
        self.s[3] = self.s[3].rotate_left(45);
        r
    }

    /// Uniform in 0..n (n > 0).
    pub fn below(&mut self, n: u64) -> u64 {
        debug_assert!(n > 0);
        // multiply-shift; bias is irrelevant for workload generation
        ((u128::from(self.next_u64()) * u128::from(n)) >> 64) as u64
    }

    pub fn usize(&mut self, n: usize) -> usize {
        self.below(n as u64) as usize
    }

    /// Uniform in lo..=hi.
    pub fn range(&mut self, lo: i64, hi: i64) -> i64 {
        debug_assert!(lo <= hi);
        lo + self.below((hi - lo + 1) as u64) as i64
    }

    pub fn chance(&mut self, num: u64, den: u64) -> bool {
        self.below(den) < num
    }

    pub fn pick<'a, T>(&mut self, xs: &'a [T]) -> &'a T {
        &xs[self.usize(xs.len())]
    }

    pub fn byte(&mut self) -> u8 {
        self.next_u64() as u8
    }

    pub fn shuffle<T>(&mut self, xs: &mut [T]) {
        for i in (1..xs.len()).rev() {
            let j = self.usize(i + 1);
            xs.swap(i, j);
        }
    }
}
