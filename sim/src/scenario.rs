//! Dispatch: (property, tier, seed, run) -> trace, and trace -> outcome.

use crate::rng::Rng;
use crate::trace::{from_hex, Ev, Outcome, RunStats, Trace};

pub const CLAIMED: [&str; 9] = ["C01", "C02", "C03", "C08", "C09", "C10", "C14", "C16", "C20"];

#[derive(Clone, Copy, Debug, PartialEq)]
pub enum Tier {
    Quick,
    Thorough,
}

impl Tier {
    pub fn name(self) -> &'static str {
        match self {
            Tier::Quick => "quick",
            Tier::Thorough => "thorough",
        }
    }
    pub fn parse(s: &str) -> Tier {
        if s == "thorough" {
            Tier::Thorough
        } else {
            Tier::Quick
        }
    }
}

/// Number of runs of a tier. Fixed counts (not wall-clock budgets) keep coverage a function of the seed.
pub fn runs_for(prop: &str, tier: Tier) -> u64 {
    let scale = std::env::var("VERIF_SCALE").ok().and_then(|s| s.parse::<f64>().ok()).unwrap_or(1.0);
    if prop == "C02" {
        let sampled = if tier == Tier::Quick { 100_000.0 } else { 1_000_000.0 };
        return enum_runs(tier) + ((sampled * scale) as u64).max(1);
    }
    let n: u64 = match (prop, tier) {
        ("C14", Tier::Quick) => 300_000,
        ("C14", Tier::Thorough) => 4_000_000,
        (_, Tier::Quick) => 100_000,
        (_, Tier::Thorough) => 1_000_000,
    };
    ((n as f64 * scale) as u64).max(1)
}

/// Runs of C02 spent on the complete single-fault sweep of base files (quota per base file).
pub fn enum_bases(tier: Tier) -> u64 {
    match tier {
        Tier::Quick => 2,
        Tier::Thorough => 64,
    }
}
/// Base files whose every truncation is tried (two, resp. six, per reader).
pub fn trunc_bases(tier: Tier) -> u64 {
    crate::gen_load::SWEEP_KINDS.len() as u64
        * match tier {
            Tier::Quick => 2,
            Tier::Thorough => 6,
        }
}
pub fn trunc_runs(tier: Tier) -> u64 {
    trunc_bases(tier) * crate::gen_load::TRUNC_QUOTA
}
pub fn enum_runs(tier: Tier) -> u64 {
    trunc_runs(tier) + enum_bases(tier) * crate::gen_load::ENUM_QUOTA
}

pub fn generate(prop: &str, tier: Tier, seed: u64, run: u64) -> Trace {
    let mut rng = Rng::for_run(seed, prop, run);
    let thorough = tier == Tier::Thorough;
    let mut t = match prop {
        "C14" => {
            let canon = crate::gen_sixel::canonical_total(thorough);
            if run < canon {
                crate::gen_sixel::gen_c14(&mut rng, run, thorough)
            } else {
                match (run - canon) % 4 {
                    0 => crate::gen_sixel::gen_c14_direct(&mut rng, thorough),
                    1 if (run - canon) % 8 == 1 => crate::gen_sixel::gen_c14_load(&mut rng, thorough),
                    _ => crate::gen_sixel::gen_c14(&mut rng, run, thorough),
                }
            }
        }
        "C01" => crate::gen_term::gen_term("C01", &mut rng, run, thorough),
        "C09" => crate::gen_term::gen_term("C09", &mut rng, run, thorough),
        "C10" if run % 4 == 3 => crate::gen_load::gen_load("C10", &mut rng, run, thorough),
        "C10" if run % 16 == 9 => crate::gen_gfx::gen_c10_rip(&mut rng),
        "C10" => crate::gen_term::gen_term("C10", &mut rng, run, thorough),
        "C02" if run < trunc_runs(tier) => crate::gen_load::gen_load_enum("C02", seed, run / crate::gen_load::TRUNC_QUOTA, run % crate::gen_load::TRUNC_QUOTA, true),
        "C02" if run < enum_runs(tier) => {
            let r = run - trunc_runs(tier);
            crate::gen_load::gen_load_enum("C02", seed, r / crate::gen_load::ENUM_QUOTA, r % crate::gen_load::ENUM_QUOTA, false)
        }
        "C02" => crate::gen_load::gen_load("C02", &mut rng, run, thorough),
        "C20" => crate::gen_gfx::gen_c20(&mut rng, run, thorough),
        "C08" => crate::edit::gen_edit(&mut rng, run, thorough),
        "C03" if run % 4 == 3 => crate::gen_load::gen_load("C03", &mut rng, run, thorough),
        "C16" if run % 3 == 2 => crate::pal::gen_pal(&mut rng),
        "C16" => crate::gen_term::gen_term("C16", &mut rng, run, thorough),
        "C03" => crate::gen_term::gen_c03(&mut rng, run, thorough),
        _ => Trace::new(prop, "none"),
    };
    t.origin = format!("seed={seed} run={run} tier={}", tier.name());
    t
}

pub fn execute(trace: &Trace) -> Outcome {
    crate::guard::beat();
    let mut out = match trace.scenario.as_str() {
        "term" => crate::term::run_term(trace),
        "sixel_direct" => run_sixel_direct(trace),
        "load" if trace.property == "C14" => crate::exec_load::run_c14_load(trace),
        "load" => crate::exec_load::run_load(trace),
        "edit" => crate::edit::run_edit(trace),
        "pal" => crate::pal::run_pal(trace),
        other => Outcome {
            violation: None,
            ended: format!("harness_error:unknown scenario {other}"),
            stats: RunStats::default(),
            digest: 0,
        },
    };
    // generator labels become reach measures
    for l in &trace.labels {
        if let Some((k, v)) = l.split_once('=') {
            out.stats.sig(k, crate::rng::fnv(v));
        }
    }
    for f in &trace.faults {
        let kind = f.split([' ', ':']).next().unwrap_or("fault");
        out.stats.count(&format!("fault_{kind}"));
    }
    out.stats.count(if trace.faults.is_empty() { "runs_fault_free" } else { "runs_faulted" });
    out.stats.count(&format!("ended_{}", out.ended.split(':').next().unwrap_or("?")));
    out
}

fn run_sixel_direct(trace: &Trace) -> Outcome {
    let mut stats = RunStats::default();
    let mut violation = None;
    let mut digest = 0u64;
    crate::guard::phase(1);
    crate::guard::mem_begin(256 << 20, 64 << 20);
    for (ei, ev) in trace.events.iter().enumerate() {
        stats.events += 1;
        if let Ev::Load { hex, .. } = ev {
            let bytes = from_hex(hex);
            stats.bytes += bytes.len() as u64;
            let payload: String = bytes.iter().map(|b| *b as char).collect();
            icy_engine::verif_hooks::set_fuel(crate::term::DEFAULT_DECODE_FUEL, u32::MAX);
            let rf = crate::monitors::ref_decode(icy_engine::Position::new(0, 0), &payload);
            icy_engine::verif_hooks::set_fuel(icy_engine::verif_hooks::UNLIMITED, u32::MAX);
            digest ^= rf.hash.rotate_left(ei as u32) ^ ((rf.w as u64) << 32 | rf.h as u64);
            stats.count(if rf.ok { "decode_ok" } else { "decode_err" });
            if rf.panicked {
                stats.count("decode_panicked");
            }
            if rf.ok {
                if let Some(v) = crate::monitors::check_rect("C14", "Sixel::parse_from", rf.w, rf.h, rf.bytes, ei) {
                    violation = Some(v);
                    break;
                }
                if let Some((w, h, extent)) = crate::monitors::raster_and_extent(&payload) {
                    if w >= 1 && h >= 1 && extent <= w {
                        stats.count("raster_clause_checked");
                        if rf.w != w || rf.h != h {
                            violation = Some(crate::monitors::inv(
                                "C14",
                                "sixel_raster_size",
                                format!("payload declares {w} x {h}, data extent {extent} fits, but the image is {} x {}", rf.w, rf.h),
                                ei,
                            ));
                            break;
                        }
                    }
                }
            }
        }
    }
    crate::guard::mem_end();
    crate::guard::phase(0);
    Outcome {
        ended: if violation.is_some() { "violation".into() } else { "completed".into() },
        violation,
        stats,
        digest,
    }
}
