//! Process-level guards of a worker: the counting allocator (simulated memory), panic capture with
//! enclosing-function keys, the status file the supervisor reads after a death, and the watchdog.

use std::alloc::{GlobalAlloc, Layout, System};
use std::sync::atomic::{AtomicBool, AtomicI32, AtomicU64, AtomicUsize, Ordering};
use std::sync::Mutex;

// ------------------------------------------------------------------ allocator

pub struct CountingAlloc;

static LIVE: AtomicUsize = AtomicUsize::new(0);
static PEAK: AtomicUsize = AtomicUsize::new(0);
static BASE: AtomicUsize = AtomicUsize::new(0);
static BUDGET_LIVE: AtomicUsize = AtomicUsize::new(usize::MAX);
static BUDGET_ONE: AtomicUsize = AtomicUsize::new(usize::MAX);
static LARGEST: AtomicUsize = AtomicUsize::new(0);
static STATUS_FD: AtomicI32 = AtomicI32::new(-1);

fn note_alloc_failure(size: usize, live: usize) {
    let fd = STATUS_FD.load(Ordering::Relaxed);
    if fd < 0 {
        return;
    }
    // async-signal-safe formatting: fixed-width decimal
    let mut buf = [b' '; 64];
    let tag = b"ALLOC ";
    buf[..tag.len()].copy_from_slice(tag);
    let mut put = |mut v: usize, end: usize| {
        let mut i = end;
        loop {
            buf[i] = b'0' + (v % 10) as u8;
            v /= 10;
            if v == 0 || i == 0 {
                break;
            }
            i -= 1;
        }
    };
    put(size, 30);
    put(live, 55);
    buf[63] = b'\n';
    unsafe {
        libc::pwrite(fd, buf.as_ptr().cast(), buf.len(), 64);
    }
}

unsafe impl GlobalAlloc for CountingAlloc {
    unsafe fn alloc(&self, layout: Layout) -> *mut u8 {
        let size = layout.size();
        let live = LIVE.load(Ordering::Relaxed);
        let base = BASE.load(Ordering::Relaxed);
        if size > BUDGET_ONE.load(Ordering::Relaxed) || live.saturating_sub(base).saturating_add(size) > BUDGET_LIVE.load(Ordering::Relaxed) {
            note_alloc_failure(size, live.saturating_sub(base));
            return std::ptr::null_mut();
        }
        let p = System.alloc(layout);
        if !p.is_null() {
            let now = LIVE.fetch_add(size, Ordering::Relaxed) + size;
            PEAK.fetch_max(now, Ordering::Relaxed);
            LARGEST.fetch_max(size, Ordering::Relaxed);
        }
        p
    }
    unsafe fn dealloc(&self, ptr: *mut u8, layout: Layout) {
        System.dealloc(ptr, layout);
        LIVE.fetch_sub(layout.size(), Ordering::Relaxed);
    }
    unsafe fn alloc_zeroed(&self, layout: Layout) -> *mut u8 {
        let size = layout.size();
        let live = LIVE.load(Ordering::Relaxed);
        let base = BASE.load(Ordering::Relaxed);
        if size > BUDGET_ONE.load(Ordering::Relaxed) || live.saturating_sub(base).saturating_add(size) > BUDGET_LIVE.load(Ordering::Relaxed) {
            note_alloc_failure(size, live.saturating_sub(base));
            return std::ptr::null_mut();
        }
        let p = System.alloc_zeroed(layout);
        if !p.is_null() {
            let now = LIVE.fetch_add(size, Ordering::Relaxed) + size;
            PEAK.fetch_max(now, Ordering::Relaxed);
            LARGEST.fetch_max(size, Ordering::Relaxed);
        }
        p
    }
    unsafe fn realloc(&self, ptr: *mut u8, layout: Layout, new_size: usize) -> *mut u8 {
        let old = layout.size();
        if new_size > old {
            let grow = new_size - old;
            let live = LIVE.load(Ordering::Relaxed);
            let base = BASE.load(Ordering::Relaxed);
            if new_size > BUDGET_ONE.load(Ordering::Relaxed) || live.saturating_sub(base).saturating_add(grow) > BUDGET_LIVE.load(Ordering::Relaxed) {
                note_alloc_failure(new_size, live.saturating_sub(base));
                return std::ptr::null_mut();
            }
        }
        let p = System.realloc(ptr, layout, new_size);
        if !p.is_null() {
            if new_size > old {
                let now = LIVE.fetch_add(new_size - old, Ordering::Relaxed) + (new_size - old);
                PEAK.fetch_max(now, Ordering::Relaxed);
                LARGEST.fetch_max(new_size, Ordering::Relaxed);
            } else {
                LIVE.fetch_sub(old - new_size, Ordering::Relaxed);
            }
        }
        p
    }
}

/// Start of a scenario: live bytes from now on are attributed to it.
pub fn mem_begin(budget_live: usize, budget_one: usize) {
    let live = LIVE.load(Ordering::Relaxed);
    BASE.store(live, Ordering::Relaxed);
    PEAK.store(live, Ordering::Relaxed);
    LARGEST.store(0, Ordering::Relaxed);
    BUDGET_ONE.store(budget_one, Ordering::Relaxed);
    BUDGET_LIVE.store(budget_live, Ordering::Relaxed);
}

/// End of a scenario: returns (peak live bytes above the start, largest single request).
pub fn mem_end() -> (usize, usize) {
    BUDGET_LIVE.store(usize::MAX, Ordering::Relaxed);
    BUDGET_ONE.store(usize::MAX, Ordering::Relaxed);
    let peak = PEAK.load(Ordering::Relaxed).saturating_sub(BASE.load(Ordering::Relaxed));
    (peak, LARGEST.load(Ordering::Relaxed))
}

// ---------------------------------------------------------------- status file

pub fn status_open(path: &str) {
    let c = std::ffi::CString::new(path).unwrap();
    let fd = unsafe { libc::open(c.as_ptr(), libc::O_CREAT | libc::O_RDWR | libc::O_TRUNC, 0o644) };
    STATUS_FD.store(fd, Ordering::Relaxed);
}

/// Record which run is in flight, before it starts.
pub fn status_run(run: u64) {
    let fd = STATUS_FD.load(Ordering::Relaxed);
    if fd < 0 {
        return;
    }
    let s = format!("RUN {run:>20}\n{:<39}\n", "");
    unsafe {
        libc::pwrite(fd, s.as_ptr().cast(), s.len(), 0);
        // clear the reason slot
        let blank = [b' '; 64];
        libc::pwrite(fd, blank.as_ptr().cast(), 64, 64);
    }
}

pub fn status_reason(reason: &str) {
    let fd = STATUS_FD.load(Ordering::Relaxed);
    if fd < 0 {
        return;
    }
    let mut s = format!("{reason:<63}");
    s.truncate(63);
    s.push('\n');
    unsafe {
        libc::pwrite(fd, s.as_ptr().cast(), s.len(), 64);
    }
}

// --------------------------------------------------------------- panic capture

#[derive(Clone, Debug, Default)]
pub struct PanicRecord {
    pub thread_main: bool,
    pub location: String,
    pub message: String,
    /// demangled path of the first backtrace frame inside the engine
    pub function: String,
    /// "fuel", "depth" or "" for ordinary panics
    pub special: String,
    pub special_value: u64,
}

static PANICS: Mutex<Vec<PanicRecord>> = Mutex::new(Vec::new());
static MAIN_THREAD: Mutex<Option<std::thread::ThreadId>> = Mutex::new(None);
pub static QUIET: AtomicBool = AtomicBool::new(true);

fn engine_frame(bt: &str) -> String {
    // Backtrace Display format: "  N: path::to::function\n             at /file:line:col"
    let lines: Vec<&str> = bt.lines().collect();
    let mut i = 0;
    while i < lines.len() {
        let l = lines[i].trim_start();
        if let Some(pos) = l.find(": ") {
            let (num, name) = l.split_at(pos);
            if num.chars().all(|c| c.is_ascii_digit()) {
                let name = &name[2..];
                let at = lines.get(i + 1).map(|s| s.trim_start()).unwrap_or("");
                let in_repo = at.starts_with("at /repo/src/") || (at.starts_with("at ") && at.contains("/repo/src/"));
                let is_hook = name.contains("verif_hooks");
                if in_repo && !is_hook {
                    // strip hash suffix and generic closures
                    let mut n = name.to_string();
                    if let Some(p) = n.rfind("::h") {
                        if n.len() - p == 19 {
                            n.truncate(p);
                        }
                    }
                    while n.ends_with("::{{closure}}") {
                        n.truncate(n.len() - "::{{closure}}".len());
                    }
                    return n;
                }
            }
        }
        i += 1;
    }
    String::new()
}

/// Nearest preceding `fn` in the source text of the current tree: a key that survives line shifts.
pub fn enclosing_fn(file: &str, line: u32) -> Option<String> {
    let text = std::fs::read_to_string(file).ok()?;
    let lines: Vec<&str> = text.lines().collect();
    let mut i = (line as usize).min(lines.len());
    while i > 0 {
        i -= 1;
        let l = lines[i].trim_start();
        let l = l.strip_prefix("pub(crate) ").or_else(|| l.strip_prefix("pub(super) ")).or_else(|| l.strip_prefix("pub ")).unwrap_or(l);
        let l = l.strip_prefix("const ").unwrap_or(l);
        let l = l.strip_prefix("unsafe ").unwrap_or(l);
        if let Some(rest) = l.strip_prefix("fn ") {
            let name: String = rest.chars().take_while(|c| c.is_alphanumeric() || *c == '_').collect();
            if !name.is_empty() {
                let rel = file.strip_prefix("/repo/src/").unwrap_or(file);
                return Some(format!("{rel}::{name}"));
            }
        }
    }
    None
}

pub fn install_panic_hook() {
    *MAIN_THREAD.lock().unwrap() = Some(std::thread::current().id());
    std::panic::set_hook(Box::new(|info| {
        let mut rec = PanicRecord::default();
        rec.thread_main = MAIN_THREAD.lock().map(|m| *m == Some(std::thread::current().id())).unwrap_or(false);
        if let Some(f) = info.payload().downcast_ref::<icy_engine::verif_hooks::FuelExhausted>() {
            rec.special = "fuel".into();
            rec.special_value = f.used;
        } else if let Some(d) = info.payload().downcast_ref::<icy_engine::verif_hooks::DepthExceeded>() {
            rec.special = "depth".into();
            rec.special_value = u64::from(d.depth);
        } else {
            if let Some(l) = info.location() {
                rec.location = format!("{}:{}", l.file(), l.line());
            }
            rec.message = if let Some(s) = info.payload().downcast_ref::<&str>() {
                (*s).to_string()
            } else if let Some(s) = info.payload().downcast_ref::<String>() {
                s.clone()
            } else {
                "<non-string payload>".to_string()
            };
            // the budget must not make the capture itself fail
            let saved_live = BUDGET_LIVE.swap(usize::MAX, Ordering::Relaxed);
            let saved_one = BUDGET_ONE.swap(usize::MAX, Ordering::Relaxed);
            rec.function = String::new();
            if let Some(l) = info.location() {
                if l.file().starts_with("/repo/src/") {
                    rec.function = enclosing_fn(l.file(), l.line()).unwrap_or_default();
                }
            }
            if rec.function.is_empty() {
                let bt = std::backtrace::Backtrace::force_capture().to_string();
                rec.function = engine_frame(&bt);
                // normalise "crate::module::<impl ..>::name" to the last path segments
                if let Some(p) = rec.function.rfind("::") {
                    let tail = &rec.function[p + 2..];
                    rec.function = format!("(via std) {tail}");
                }
            }
            if rec.function.is_empty() {
                rec.function = rec.location.clone();
            }
            BUDGET_LIVE.store(saved_live, Ordering::Relaxed);
            BUDGET_ONE.store(saved_one, Ordering::Relaxed);
            if !QUIET.load(Ordering::Relaxed) {
                eprintln!("panic at {}: {} [{}]", rec.location, rec.message, rec.function);
            }
        }
        if let Ok(mut p) = PANICS.lock() {
            p.push(rec);
        }
    }));
}

pub fn take_panics() -> Vec<PanicRecord> {
    PANICS.lock().map(|mut p| std::mem::take(&mut *p)).unwrap_or_default()
}

// -------------------------------------------------------------------- watchdog

static BEAT: AtomicU64 = AtomicU64::new(0);
/// 0 = idle, 1 = in an ordinary event, 2 = inside a UI poll (must return at once)
static PHASE: AtomicU64 = AtomicU64::new(0);
static LIMIT_MS: AtomicU64 = AtomicU64::new(10_000);
static POLL_LIMIT_MS: AtomicU64 = AtomicU64::new(5_000);

pub fn beat() {
    BEAT.fetch_add(1, Ordering::Relaxed);
}

pub fn phase(p: u64) {
    PHASE.store(p, Ordering::Relaxed);
    BEAT.fetch_add(1, Ordering::Relaxed);
}

pub fn set_limits(general_ms: u64, poll_ms: u64) {
    LIMIT_MS.store(general_ms, Ordering::Relaxed);
    POLL_LIMIT_MS.store(poll_ms, Ordering::Relaxed);
}

/// Backstop for code that loops without touching a tick site, and the "poll never blocks" judge.
pub fn start_watchdog() {
    std::thread::Builder::new()
        .name("watchdog".into())
        .spawn(|| {
            let mut last = BEAT.load(Ordering::Relaxed);
            let mut since = std::time::Instant::now();
            loop {
                std::thread::sleep(std::time::Duration::from_millis(100));
                let b = BEAT.load(Ordering::Relaxed);
                let ph = PHASE.load(Ordering::Relaxed);
                if b != last || ph == 0 {
                    last = b;
                    since = std::time::Instant::now();
                    continue;
                }
                let el = since.elapsed().as_millis() as u64;
                if ph == 2 && el > POLL_LIMIT_MS.load(Ordering::Relaxed) {
                    status_reason("POLL_BLOCKED");
                    unsafe { libc::_exit(87) };
                }
                if el > LIMIT_MS.load(Ordering::Relaxed) {
                    status_reason("WATCHDOG");
                    unsafe { libc::_exit(86) };
                }
            }
        })
        .expect("spawn watchdog");
}
